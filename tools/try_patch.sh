#!/bin/bash
# usage: tools/try_patch.sh <patch.diff> <ID> [<ID>...]   -- apply to /repo, run quick checks, undo. (VERIF_TIER may be set)
set -u
patch=$(realpath "$1"); shift
cd /repo || exit 2
if [ -n "$(git status --porcelain --untracked-files=no)" ]; then echo "repo dirty"; exit 2; fi
git apply "$patch" || { echo "patch does not apply"; exit 2; }
trap 'git -C /repo checkout -- . ' EXIT
cd /verif
for id in "$@"; do
  out=$(./vcheck "$id" --tier "${VERIF_TIER:-quick}" 2>&1); rc=$?
  echo "$out" | grep -v conda | grep -E "^\[|VIOLATION|KNOWN|violating" | head -${SHOW:-6}
  echo "== $id rc=$rc $( [ $rc -ne 0 ] && echo DETECTED || echo missed )"
done
