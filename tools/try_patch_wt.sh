#!/bin/bash
# usage: tools/try_patch_wt.sh <patch.diff> <ID> [<ID>...]
# Like try_patch.sh but never touches /repo's working tree: the patch is applied to a scratch worktree of /repo's HEAD
# under /tmp, the checks import y0 from there through PYTHONPATH, evidence goes to a scratch directory, and the
# worktree is removed afterwards.  Safe to use while other checks are running against /repo.
set -u
patch=$(realpath "$1"); shift
wt=$(mktemp -d /tmp/mutwt.XXXXXX); rmdir "$wt"
git -C /repo worktree add --detach -q "$wt" HEAD || exit 2
trap 'git -C /repo worktree remove --force "$wt"' EXIT
git -C "$wt" apply "$patch" || { echo "patch does not apply"; exit 2; }
cd /verif
for id in "$@"; do
  out=$(VERIF_EVIDENCE_DIR=/tmp/seed_eval_evidence PYTHONPATH="$wt/src" ./vcheck "$id" --tier "${VERIF_TIER:-quick}" 2>&1); rc=$?
  echo "$out" | grep -v conda | grep -E "^\[|VIOLATION|KNOWN|violating|clause=" | head -${SHOW:-6}
  echo "== $id rc=$rc $( [ $rc -ne 0 ] && echo DETECTED || echo missed )"
done
