#!/venv/bin/python
"""Regenerate /verif/MANIFEST.json from the table below (one row per claimed property)."""
import json, os

ROOT = os.path.dirname(os.path.dirname(os.path.abspath(__file__)))
TECH = "explicit-state exhaustive enumeration of inputs/operation sequences on the real code vs a reference model"

CHECKS = {
    "C01": dict(
        text="Every query (X,Y) on every labelled ADMG up to 3 nodes and every name-ordered 4-node ADMG, the irreducible line-7-first "
        "queries of five-node graphs up to 8 edges (thorough: all 34 752 labelled 4-node ADMGs, all irreducible five-node queries), and "
        "every sequence of three edge insertions on one live graph object with all queries after each insertion, is run through the "
        "real ID code; each returned estimand is evaluated "
        "exactly (rational arithmetic) on generic witness SCMs for every value assignment and compared with P(y|do x) computed by "
        "truncated factorisation. Exhaustive over graphs, queries and assignments within the bound; the quantifier over all SCMs "
        "is discharged on generic witnesses (binary and ternary), which cannot raise a false alarm.",
        note="Trusted: mc/scm.py (truncated factorisation) and mc/semantics.py (evaluator); graphs above the bound not covered.",
        design="4/C01",
    ),
    "C02": dict(
        text="Every query on every graph of the bound (also given as networkx graphs over string names) is run through both public ID entry "
        "points; the outcome class "
        "(estimand / refusal / anything else) is compared with an independent identifiability oracle (Tian-Pearl closure, "
        "cross-checked against a brute-force hedge search), and the caller's graph and query objects are snapshotted before and "
        "after. Bounded-exhaustive over (graph, X, Y); five-node graphs up to 8 (thorough 9) edges on the slice of identifiable queries "
        "whose first step is line 4 into several line-7 districts. Builder phase: every sequence of three steps (edge insertions and "
        "count-preserving edge moves) on one live graph object over three names, every query asked again after every step.",
        note="Trusted: identifiability oracles in mc/graphs.py (two independent ones, cross-checked exhaustively for n<=4).",
        design="4/C02",
    ),
    "C03": dict(
        text="Every (X,Y,Z) split on every labelled ADMG up to 3 nodes and four-node name-ordered graphs (quick: <=4 edges; thorough: "
        "all 4096 plus labelled <=4 edges) is run through both IDC entry points; estimands are evaluated exactly on generic witness "
        "SCMs for every assignment and compared with P(y,z|do x)/P(z|do x); any outcome other than estimand/refusal is a violation. Builder phase: every sequence "
        "of three edge insertions on one live graph object, every query asked again after every insertion. Five-node slice: the "
        "name-ordered graphs with a collider of at least three parents (quick <=4 edges, thorough <=5), all-binary witness.",
        note="Trusted: mc/scm.py and mc/semantics.py; bounded-exhaustive, witnesses stand in for all SCMs.",
        design="4/C03",
    ),
    "C05": dict(
        text="Every (graph, X, Y, list of up to two source domains (Z_i, W_i)) within the bound (three-node graphs exhaustively, four-node "
        "slices without domains, with one and with two single-experiment domains) is run through identify_target_outcomes with "
        "argument sets that are re-used across calls and snapshotted (with two domains the two mappings are also written in opposite key order); "
        "the estimand is evaluated on a multi-domain witness family (source models share every mechanism with the target except at the "
        "nodes marked by the selection diagram) and compared with the target P*(y|do x) for every assignment; with no domains the "
        "None-ness must coincide with ID-identifiability. A denser four-node slice is checked for the kind of outcome and side effects only "
        "and is repeated in fresh interpreters under several PYTHONHASHSEED values.",
        note="Trusted: witness family construction (mechanisms keyed by named arguments), evaluator; transport marks are y0's own "
        "united with the published construction.",
        design="4/C05",
    ),
    "C06": dict(
        text="Every query of the ID, IDC, TRSO, ID* and IDC* input spaces (bounds as in C01/C03/C05/C07/C08, without numeric "
        "evaluation) is run and every returned expression tree is walked term by term against the vocabulary rules: "
        "observational terms over graph nodes only (ID/IDC), target or declared-domain terms with subscripts inside the declared "
        "experiments and no transport node (TRSO), single-world terms (ID*/IDC*).",
        note="Purely syntactic oracle over the real outputs; bounded-exhaustive over inputs.",
        design="4/C06",
    ),
    "C07": dict(
        text="Every conjunction of up to three counterfactual event items (all consistent subscript assignments incl. reflexive ones, "
        "values - and +; three-world triples included) on every labelled ADMG up to 3 nodes is passed to id_star; the result is evaluated on two functional witness SCMs by "
        "enumerating every exogenous setting, for every base value assignment, and compared with the probability of the "
        "conjunction; Zero() is accepted only for probability-zero events; only the 'unidentifiable' refusal may be raised. "
        "Three defect mechanisms of ID* that the repository's own tests pin are listed in known_findings.json with an index of "
        "their failing inputs; any other failing input is a violation. Plus 1 080 five- and six-node three-world cases (three "
        "outcomes, each the child of exactly the variables its own world intervenes on) and builder sequences on one live graph object.",
        note="Trusted: mc/fscm.py (functional witness, noise enumeration), evaluator, reading of values stated in DESIGN 2.4.",
        design="4/C07",
    ),
    "C08": dict(
        text="Every (outcome, condition) pair of counterfactual event items, and every factual query with two conditions or two outcomes "
        "in both listing orders, on every graph of the bound is passed to idc_star; the "
        "result is evaluated on two functional witness SCMs by exhaustive noise enumeration for every base assignment and compared "
        "with P(outcomes, conditions)/P(conditions); Zero() only for impossible joint events; an impossible condition must be "
        "rejected. Failing inputs caused by the ID* defects that the repository's tests pin are listed in an index; any other "
        "failing input is a violation.",
        note="Trusted: mc/fscm.py, evaluator; two admissible readings of the normalising sum (DESIGN 2.4).",
        design="4/C08",
    ),
    "C18": dict(
        text="Same event space: make_counterfactual_graph's relabelled event must have the same probability as the original on the "
        "functional witness for every base assignment, 'inconsistent' only for probability-zero events, and the returned graph "
        "must be a DAG equal to the ancestors of the relabelled event's variables; graph and event dict must come back unchanged. "
        "Three-node graphs include three-world triples. Builder phase: every sequence of three edge insertions on one live graph object, the construction asked after every insertion.",
        note="Trusted: mc/fscm.py. Exceptions on events containing a self-intervened variable are counted, not judged (the property "
        "promises no result there).",
        design="4/C18",
    ),
    "C19": dict(
        text="For every counterfactual variable (every consistent subscript assignment incl. irrelevant and reflexive ones) on every "
        "graph of the bound: minimize_counterfactual is compared with the original variable in every exogenous setting of two "
        "functional witnesses, get_ancestors_of_counterfactual with an independent implementation of Definition 2.1; for every "
        "event of up to two items (repeated variables allowed): simplify must preserve the event's probability (None only at "
        "probability zero) get_ancestral_components is compared with Definition 4.2, and the counterfactual-factor factorisation of non-reflexive "
        "queries must evaluate to the query's probability with multi-world terms obtained by noise enumeration. Defects pinned by the repository's tests are listed "
        "with an index of failing inputs. The definitional clauses are also checked on four-node graphs, and (with the components) "
        "after every step of every sequence of three edge insertions on one live graph object. On three-node graphs simplify is also "
        "judged on every pair of non-reflexive items with up to two subscripts each.",
        note="Trusted: mc/fscm.py and the definition-based references for Definitions 2.1 and 4.2 (two worlds of one vertex are "
        "treated as linked, since they share exogenous noise).",
        design="4/C19",
    ),
    "C09": dict(
        text="Every (target graph, source domain (transport-marked set S, policy set Z, two topological orders), event or "
        "(outcome | condition) query) within the bound is passed to ctfTRu / ctfTR after y0's own input validation; the returned "
        "expression is evaluated on a multi-domain functional witness family (source model shares every mechanism with the target "
        "except at S and Z) by exhaustive noise enumeration with the returned event's values and compared with the target "
        "(conditional) probability; Zero() only for impossible events; after validation only a result or None may come back. "
        "Defects inherited from SIMPLIFY / ctf-factor handling are listed with an index of failing inputs. Builder phase: the target "
        "graph object and one selection-diagram object per domain are grown in place, ctfTRu asked after every insertion. "
        "Nested-intervention slice: four-node graphs with a directed path of length two, events with two nested subscripts alone "
        "and paired with a mediator in a second world.",
        note="Trusted: mc/fscm.py multi-domain family; errors raised by y0's input-validation routines count as refusals.",
        design="4/C09",
    ),
    "C10": dict(
        text="Breadth-first exploration of DSL operation sequences from a 35-atom alphabet (two populations) (thorough: also three operations deep "
        "from a 12-atom alphabet): for every well-scoped expression reached and every ordering, the value function of the "
        "canonical form (exact rationals over generic tables, every value assignment) is compared with that of the expression; "
        "all states are grouped by canonical form across shards and every group must have one value function.",
        note="Trusted: mc/semantics.py evaluator and the well-scopedness predicate of DESIGN 2.4.",
        design="4/C10",
    ),
    "C11": dict(
        text="Same state space: canonicalize is applied to each state, to its canonical form (fix-point, by object equality and "
        "text) and to every presentation variant (factor permutations, product re-nesting, children/parents permutations at "
        "every node, everything reversed); the ordered canonical texts are hashed and compared across PYTHONHASHSEED values, and "
        "equal intervention sets with different iteration orders (colliding frozensets) must print and canonicalise identically.",
        note="Variants are built with the raw dataclass constructors; equality is y0's own dataclass equality plus exact structure.",
        design="4/C11",
    ),
    "C12": dict(
        text="Breadth-first exploration of expressions built by the public operators from an alphabet with value marks, + / - "
        "subscripts, populations, Q-factors and constants: every state is printed and parsed back; the parsed object's value "
        "function (opaque-leaf semantics, exact rationals, every assignment) must equal the original's, and in the "
        "un-nested-division sub-family the parsed object must be equal and print identically. Name slice: each of the 546 documented "
        "variable names in 16-20 roles must parse back to the same object.",
        note="Trusted: evaluator with opaque leaves (a term's value depends only on its item set and population).",
        design="4/C12",
    ),
    "C13": dict(
        text="Same state space: every operator / helper of the menu is applied to every source state (binary operators with every "
        "atom on either side, every range subset, every ordering); the result's value function is compared with the mathematical "
        "operation applied to the arguments' value functions at every assignment; chain expansion must yield markov kernels.",
        note="Trusted: evaluator; e.conditional(R) is read as e / sum of e over its non-subscript variables outside R.",
        design="4/C13",
    ),
    "C15": dict(
        text="For every graph of the bound, every size limit k (None, 0..n-2, n) and three enumeration variants, the returned set of "
        "judgements is compared pair by pair with minimum separating-set sizes computed by brute force with the path-definition "
        "oracle: exactly one canonical, true, minimum-size judgement per separable pair within the limit, none otherwise; "
        "repeated under several hash seeds. All name-ordered five- and six-node DAGs are screened with the oracle and those whose "
        "minimum separators lie upstream of the parents are explored; builder phase: every sequence of three edge insertions on "
        "one live graph object, the independencies asked after every insertion. Builder sequences also over three names with count-preserving edge moves as steps.",
        note="Trusted: path-definition separation oracle; k is read inclusively (docstring: longest set of conditions to investigate).",
        design="4/C15",
    ),
    "C20": dict(
        text="Every (a, b, C) on every ADMG of the bound is passed to are_sigma_separated and compared with the path-definition "
        "d-separation oracle; on every cyclic directed mixed graph of the bound the verdict is compared with the reversed call "
        "(symmetry) and with the adjacency rule; on graphs up to four nodes the conditioning set is also given as a frozenset and "
        "as a one-shot generator. Builder phase: every sequence of three edge insertions over four names on one live graph object, every "
        "query after each insertion, then a copy of the graph gets one more edge and original and copy are asked again.",
        note="Trusted: path-definition separation oracle. Cyclic graphs: only symmetry and adjacency are judged, as the property states.",
        design="4/C20",
    ),
    "C16": dict(
        text="Round trip ADMG -> LV-DAG -> ADMG on every graph of the bound; simplify_latent_dag on every DAG with up to 4 labelled "
        "nodes (plus five-node DAGs) under every latent tagging: idempotence, observed nodes kept, mixed graph read off compared "
        "with the definition-based latent projection, separation among observed nodes and single-cause/effect ID verdicts "
        "compared with oracles; evans_simplify with every additional latent subset; the experimental-design consumer "
        "(taheri_design_dag / taheri_design_admg) asked for every latent configuration of every DAG/ADMG and (cause, effect) of "
        "the bound, each Result compared with the latent projection and the identifiability oracle.",
        note="Trusted: definition-based latent projection and separation/identifiability oracles in mc/graphs.py.",
        design="4/C16",
    ),
    "C17": dict(
        text="Every (graph, linear extension, district T, bidirected-connected C inside T) within the bound is passed to "
        "identify_district_variables with Q[T] from compute_c_factor and as the Lemma-1 product; results are evaluated exactly on "
        "witness SCMs and compared with P(c|do(v minus c)); c-factor routines are also exercised from every ancestral set, whose "
        "distribution is supplied as P(A), as Sum P(V) and as a chain-rule product in every order of A.",
        note="Trusted: mc/scm.py truncated factorisation and the evaluator; failure is additionally compared with the IDENTIFY fix-point.",
        design="4/C17",
    ),
    "C04": dict(
        text="Every ordered pair and conditioning set on every labelled ADMG up to 4 nodes (thorough: plus five-node graphs up "
        "to 6 edges), under all node-insertion permutations / reversed edge lists and several hash seeds, and after every step of every "
        "sequence of three edge insertions on one live graph object, is passed to the real are_d_separated and compared with the path definition of d-separation on the latent-expanded DAG; "
        "the conditioning set is given as list, reversed tuple and (up to three nodes) frozenset and one-shot generator. Builder sequences also over three names with count-preserving edge moves as steps.",
        note="Trusted: the path-definition oracle (mc/graphs.py dsep_paths), cross-checked against Bayes-ball in selftest.",
        design="4/C04",
    ),
    "C14": dict(
        text="Every labelled mixed graph up to 3 nodes (ADMGs and cyclic DMGs; thorough: all 34 752 four-node ADMGs), every "
        "node subset and every operation sequence of depth 2 is executed on the real NxMixedGraph and compared with a "
        "set-triple reference model, under all node insertion orders and several hash seeds. Bounded-exhaustive, not a proof.",
        note="Trusted: the 10-line set-comprehension reference operations in mc/graphs.py; graphs above the bound are not covered.",
        design="4/C14",
    ),
}
ALL_IDS = [json.loads(l)["id"] for l in open(os.path.join(ROOT, "properties.jsonl")) if l.strip()]
NA_REASONS = {}
NOT_APPLICABLE = [
    {"property_id": pid, "reason": NA_REASONS.get(pid, "no registered check in this revision: the bounded-exhaustive check designed in DESIGN.md section 4 is not built/validated yet, so nothing is claimed")}
    for pid in ALL_IDS
    if pid not in CHECKS
]

manifest = {
    "version": 1,
    "setup_cmd": "/venv/bin/python -c \"import y0, networkx; print('y0 from', y0.__file__)\" && /venv/bin/python -m mc.selftest --fast",
    "hooks": {
        "guard": "Y0_VERIF",
        "enable": "no source hooks: y0 is installed editable from /repo/src, checks import the working tree directly (Y0_VERIF=1 is exported by ./vcheck but nothing in /repo reads it)",
        "baseline_off_cmd": "/verif/tools/baseline.py /repo",
        "source_commits": [],
        "add_only": True,
    },
    "engines": [
        {
            "name": "vcheck",
            "path": "/verif/vcheck",
            "serves_properties": sorted(CHECKS),
            "kind_free_text": "hand-written explicit-state explorer (Python): 16-way sharded exhaustive enumeration of graphs x queries x "
            "operation sequences, executed on the real y0 code and compared case by case with reference models (mc/)",
        }
    ],
    "checks": [
        {
            "property_id": pid,
            "quick_cmd": f"./vcheck {pid} --tier quick",
            "thorough_cmd": f"./vcheck {pid} --tier thorough",
            "evidence_file": f"/verif/evidence/{pid}.json",
            "replay_cmd_template": f"./vcheck {pid} --replay {{path}}",
            "engine": "vcheck",
            "level_claimed": {"category": "model_checking", "text": c["text"], "design_ref": c["design"]},
            "level_note": c["note"],
            "technique": c.get("technique", TECH),
        }
        for pid, c in sorted(CHECKS.items())
    ],
    "not_applicable": NOT_APPLICABLE,
    "notes": "See DESIGN.md. Known genuine defects are listed in known_findings.json.",
}
json.dump(manifest, open(os.path.join(ROOT, "MANIFEST.json"), "w"), indent=1)
print("wrote MANIFEST.json with", len(CHECKS), "checks")
