#!/bin/bash
# usage: tools/run_all.sh [quick|thorough] [IDs...]  -- run checks, validate evidence against the schema, print a summary
cd /verif
tier=${1:-quick}; shift
ids=${@:-$(python3 -c "import json;print(' '.join(c['property_id'] for c in json.load(open('MANIFEST.json'))['checks']))")}
for id in $ids; do
  rm -f evidence/$id.json
  s=$(date +%s)
  out=$(./vcheck $id --tier $tier 2>&1); rc=$?
  e=$(( $(date +%s) - s ))
  ev=$(python3-vt -c "
import json,jsonschema,sys
try:
    jsonschema.validate(json.load(open('/verif/evidence/$id.json')),json.load(open('/root/.vp/EVIDENCE.schema.json'))); print('evidence-ok')
except Exception as ex: print('EVIDENCE-BAD', str(ex)[:80])" 2>&1 | tail -1)
  echo "$id rc=$rc ${e}s $ev viol=$(echo "$out" | grep -c '^VIOLATION') known=$(echo "$out" | grep -c '^KNOWN-FINDING')"
done
