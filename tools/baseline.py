#!/venv/bin/python
"""Run the repository's pinned test suite and compare with /root/.vp/BASELINE.json (stable_pass).

usage: tools/baseline.py [repo_dir]   -> exit 0 iff every stable_pass test passes.
"""
import json, os, subprocess, sys, tempfile
import xml.etree.ElementTree as ET

repo = sys.argv[1] if len(sys.argv) > 1 else "/repo"
base = json.load(open("/root/.vp/BASELINE.json"))
want = set(base["stable_pass"])
with tempfile.TemporaryDirectory() as td:
    xml = os.path.join(td, "j.xml")
    env = dict(os.environ)
    env.pop("Y0_VERIF", None)
    env["PYTHONPATH"] = os.path.join(repo, "src")
    subprocess.call(
        ["/venv/bin/python", "-m", "pytest", "-q", "-p", "no:cacheprovider", "--timeout=900",
         "--continue-on-collection-errors", f"--junitxml={xml}"],
        cwd=repo, env=env, stdout=subprocess.DEVNULL, stderr=subprocess.DEVNULL)
    passed = set()
    for tc in ET.parse(xml).getroot().iter("testcase"):
        if not any(ch.tag in ("failure", "error", "skipped") for ch in tc):
            passed.add(f"{tc.get('classname')}::{tc.get('name')}")
missing = sorted(want - passed)
print(f"baseline: {len(want & passed)}/{len(want)} stable tests pass; {len(passed)} passed in total")
for m in missing[:30]:
    print("  NOT PASSING:", m)
sys.exit(1 if missing else 0)
