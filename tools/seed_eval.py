#!/venv/bin/python
"""Confirm a seeded change and run checks against it.

usage: tools/seed_eval.py <src_dir with patch.diff demo.py notes.md> <seed_name> <PROP> [check ids...]
Steps (all on /repo itself, undone afterwards): demo passes on clean tree; patch applies; demo fails with it; the
pinned suite (stable_pass) passes with it; each listed check is run (quick) and its verdict recorded.
Result is stored under /verif/seeded/<seed_name>/ (patch.diff, demo.py, notes.md, meta.json).
"""
import json, os, shutil, subprocess, sys

src, name, prop, *checks = sys.argv[1:]
checks = checks or [prop]
ROOT = "/verif"
# SEED_EVAL_REPO: evaluate in a scratch worktree instead of /repo itself (checks then import y0 through PYTHONPATH)
REPO = os.environ.get("SEED_EVAL_REPO", "/repo")
env = dict(os.environ, PYTHONPATH=f"{REPO}/src", PYTHONDONTWRITEBYTECODE="1")
if REPO != "/repo":
    env["VERIF_EVIDENCE_DIR"] = "/tmp/seed_eval_evidence"  # never overwrite /verif/evidence from a patched tree


def sh(cmd, **kw):
    return subprocess.run(cmd, shell=True, capture_output=True, text=True, **kw)


def demo():
    r = subprocess.run(["/venv/bin/python", "-W", "ignore", os.path.join(src, "demo.py")], env=env, capture_output=True, text=True, cwd="/tmp")
    return r.returncode, (r.stdout + r.stderr)[-600:]


assert not sh(f"git -C {REPO} status --porcelain --untracked-files=no").stdout.strip(), "repo dirty"
meta = {"property": prop, "seed": name, "ran": []}
rc0, out0 = demo()
meta["demo_clean_rc"] = rc0
patch = os.path.abspath(os.path.join(src, "patch.diff"))
r = sh(f"git -C {REPO} apply {patch}")
if r.returncode:
    print("patch does not apply:", r.stderr)
    sys.exit(2)
try:
    rc1, out1 = demo()
    meta["demo_patched_rc"] = rc1
    meta["demo_patched_tail"] = out1[-300:]
    b = sh(f"{ROOT}/tools/baseline.py {REPO}")
    meta["baseline_with_patch"] = b.stdout.strip().splitlines()[-1] if b.stdout.strip() else b.stderr[-200:]
    meta["baseline_ok"] = b.returncode == 0
    for c in checks:
        tier = os.environ.get("VERIF_TIER", "quick")
        ev = f"VERIF_EVIDENCE_DIR={env['VERIF_EVIDENCE_DIR']} " if "VERIF_EVIDENCE_DIR" in env else ""
        r = sh(f"cd {ROOT} && {ev}PYTHONPATH={REPO}/src ./vcheck {c} --tier {tier}")
        lines = [l for l in r.stdout.splitlines() if l.startswith("VIOLATION") or l.startswith("[")]
        meta["ran"].append({"check": c, "tier": tier, "rc": r.returncode, "detected": r.returncode == 1 and any(l.startswith("VIOLATION") for l in lines), "first_lines": lines[:3]})
finally:
    sh(f"git -C {REPO} checkout -- .")
    sh(f"git -C {REPO} clean -fdq -- src")
meta["confirmed"] = bool(rc0 == 0 and meta["demo_patched_rc"] != 0 and meta["baseline_ok"])
dst = os.path.join(ROOT, "seeded", name)
os.makedirs(dst, exist_ok=True)
for f in ("patch.diff", "demo.py", "notes.md"):
    if os.path.exists(os.path.join(src, f)):
        shutil.copy(os.path.join(src, f), os.path.join(dst, f))
old = {}
mp = os.path.join(dst, "meta.json")
if os.path.exists(mp):
    old = json.load(open(mp))
    # keep history of earlier runs of other checks
    seen = {(x["check"], x["tier"]) for x in meta["ran"]}
    meta["ran"] = [x for x in old.get("ran", []) if (x["check"], x["tier"]) not in seen] + meta["ran"]
    for k in ("needs",):
        if k in old:
            meta[k] = old[k]
json.dump(meta, open(mp, "w"), indent=1)
print(json.dumps(meta, indent=1))
