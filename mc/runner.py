"""Sharded exhaustive explorer: runs a property module over its whole bounded state space.

A property module ``mc.props.<ID>`` provides

* ``TITLE``: str
* ``shards(tier) -> list``            picklable shard descriptors (simplest first)
* ``work(shard, tier, seed) -> Res``  explore one shard completely, calling the real y0 code
* ``describe(tier) -> dict``          ``rule``, ``bound``, ``assumptions`` for the evidence file
* ``replay(case) -> list[violation]`` re-run one recorded case (used by --replay)

``Res`` (see :class:`Res`) accumulates counts, verdict histogram, samples and violations.
Violations whose input satisfies a predicate listed in /verif/known_findings.json for the same
property and clause are reported as KNOWN-FINDING; any other violation is a VIOLATION.
"""

from __future__ import annotations

import hashlib
import importlib
import json
import multiprocessing as mp
import os
import sys
import time
import traceback
from collections import Counter

ROOT = os.path.dirname(os.path.dirname(os.path.abspath(__file__)))
NPROC = int(os.environ.get("VERIF_NPROC", "16"))
MAX_VIOL_PER_SHARD = 40
MAX_SAMPLES = 12


class Res:
    """Accumulator for one shard (and, merged, for one run)."""

    INDEX = {}  # committed index of known failing inputs of the property being run (set by the runner)

    def __init__(self):
        self.states = 0  # distinct canonical inputs explored
        self.transitions = 0  # implementation calls compared with the reference model
        self.outcomes = Counter()  # verdict classes
        self.violations = []  # dicts: clause, input, detail, finding
        self.nviol = Counter()  # (clause, finding or '') -> count (all, not only the kept ones)
        self.samples = []
        self.extra = Counter()  # free-form counters (branch hits, ...)
        self.caps = []
        self.lines = set()  # (y0 file, line) executed while exploring
        self.fkeys = {}  # input identity -> (clause, class) of every violation that carries one
        self.keyset = set()  # 64-bit hashes of canonical states, for a global distinct count across shards
        self.digests = {}  # name -> hex digest; must coincide across PYTHONHASHSEED runs
        self.groups = {}  # key -> {signature: example}; merged across shards (canonical-equality classes)

    def sample(self, case):
        if len(self.samples) < 3:
            self.samples.append(case)

    def violation(self, clause, case, detail, finding=None, fkey=None):
        """Record a violation.  ``finding``: name of a known-finding class (predicate); ``fkey``: stable identity of the
        failing input (hash) looked up in the committed per-property index of known failing inputs."""
        if fkey is not None:
            if fkey in self.fkeys:
                return  # the same input is reported once (first clause wins)
            self.fkeys[fkey] = (clause, finding or "")
        self.nviol[(clause, finding or "")] += 1
        if fkey is not None and fkey in Res.INDEX:
            return  # a listed known failing input: counted, no replay file needed
        kept = sum(1 for v in self.violations if v["clause"] == clause and v["finding"] == finding)
        if kept < MAX_VIOL_PER_SHARD:
            self.violations.append({"clause": clause, "input": case, "detail": detail, "finding": finding, "fkey": fkey})

    def merge(self, other: "Res"):
        self.states += other.states
        self.transitions += other.transitions
        self.outcomes.update(other.outcomes)
        self.nviol.update(other.nviol)
        self.extra.update(other.extra)
        self.caps.extend(other.caps)
        self.keyset |= other.keyset
        self.lines |= getattr(other, "lines", set())
        for k, v in other.fkeys.items():
            if k in self.fkeys:
                # counted twice (two shards / hash seeds reported the same input): undo the double count
                self.nviol[v] -= 1
            else:
                self.fkeys[k] = v
        for k, v in other.digests.items():
            self.digests.setdefault(k, v)
        for k, v in other.groups.items():
            g = self.groups.setdefault(k, {})
            for sig, ex in v.items():
                g.setdefault(sig, ex)
        for v in other.violations:
            kept = sum(
                1 for w in self.violations if w["clause"] == v["clause"] and w["finding"] == v["finding"]
            )
            if kept < MAX_VIOL_PER_SHARD:
                self.violations.append(v)
        for s in other.samples:
            if len(self.samples) < MAX_SAMPLES:
                self.samples.append(s)


def load_known(prop_id):
    path = os.path.join(ROOT, "known_findings.json")
    if not os.path.exists(path):
        return {}
    data = json.load(open(path))
    out = {}
    for e in data.get("findings", []):
        if e.get("property") == prop_id and e.get("status", "open") == "open":
            out[(e["clause"], e["predicate"])] = e
    return out


def index_path(prop_id):
    return os.path.join(ROOT, "known_findings", f"{prop_id}.index.gz")


def load_index(prop_id):
    """Committed index of known failing inputs: {input hash: class}.  Never written by a check run."""
    import gzip

    path = index_path(prop_id)
    out = {}
    if os.path.exists(path):
        with gzip.open(path, "rt") as f:
            for line in f:
                parts = line.split()
                if parts:
                    out[parts[0]] = parts[1] if len(parts) > 1 else ""
    return out


def fkey_of(*parts) -> str:
    return hashlib.sha256(json.dumps(parts, sort_keys=True, default=str).encode()).hexdigest()[:14]


def _work(args):
    prop_id, shard, tier, seed = args
    mod = importlib.import_module(f"mc.props.{prop_id}")
    if not Res.INDEX:
        Res.INDEX = load_index(prop_id)
    try:
        res = mod.work(shard, tier, seed)
    except Exception:  # a harness crash is never silently a pass
        res = Res()
        res.violation("harness", {"shard": repr(shard)}, traceback.format_exc())
    res.lines = set(COVERED)
    return res


COVERED = set()  # (file, line) of y0 source lines executed in this process (filled by sys.monitoring)


def _start_line_coverage():
    """Record which lines of /repo/src/y0 are executed (each location reports once, then disables itself)."""
    mon = getattr(sys, "monitoring", None)
    if mon is None:
        return
    tool = mon.COVERAGE_ID
    try:
        mon.use_tool_id(tool, "vcheck")
    except ValueError:
        return  # already in use in this process
    root = os.path.join(os.sep, "repo", "src", "y0") + os.sep

    def on_line(code, line):
        f = code.co_filename
        if f.startswith(root):
            COVERED.add((f[len(root) :], line))
        return mon.DISABLE

    mon.register_callback(tool, mon.events.LINE, on_line)
    mon.set_events(tool, mon.events.LINE)


def executable_lines(relpath):
    """Line numbers that carry code in a y0 source file (from the compiled code objects)."""
    path = os.path.join(os.sep, "repo", "src", "y0", relpath)
    try:
        code = compile(open(path).read(), path, "exec")
    except Exception:  # noqa
        return set()
    out = set()
    stack = [code]
    while stack:
        c = stack.pop()
        out.update(line for _, _, line in c.co_lines() if line)
        stack.extend(k for k in c.co_consts if hasattr(k, "co_lines"))
    return out


def _init_worker():
    import logging
    import warnings

    warnings.filterwarnings("ignore")
    logging.disable(logging.ERROR)
    _start_line_coverage()


def explore(prop_id, tier, seed, child=False):
    mod = importlib.import_module(f"mc.props.{prop_id}")
    Res.INDEX = load_index(prop_id)
    shards = list(mod.shards(tier))
    only = os.environ.get("VERIF_SHARD_FILTER")  # development only (index recording): shards whose first field is this
    if only:
        shards = [s for s in shards if str(s[0]) == only]
    total = Res()
    hash_seeds = getattr(mod, "HASH_SEEDS", None)
    if hash_seeds and not child:
        # the whole exploration is repeated in fresh interpreters, one per PYTHONHASHSEED
        import pickle
        import subprocess
        import tempfile

        for hs in hash_seeds[tier]:
            with tempfile.TemporaryDirectory(prefix="vcheck_") as td:
                out = os.path.join(td, "res.pkl")
                env = dict(os.environ, PYTHONHASHSEED=str(hs), VERIF_TIER=tier, VERIF_SEED=str(seed))
                rc = subprocess.call(
                    [sys.executable, "-W", "ignore", "-m", "mc.runner", prop_id, "--tier", tier, "--child", out],
                    env=env,
                    cwd=ROOT,
                )
                if rc != 0 or not os.path.exists(out):
                    total.violation("harness", {"hashseed": hs}, f"child exploration exited with {rc}")
                    continue
                r = pickle.load(open(out, "rb"))
            for v in r.violations:
                if isinstance(v.get("input"), dict):
                    v["input"].setdefault("PYTHONHASHSEED", hs)
            for k, d in r.digests.items():
                if k in total.digests and total.digests[k] != d:
                    total.violation(
                        "hash_seed",
                        {"digest": k, "PYTHONHASHSEED": hs},
                        f"outputs of {k} differ between PYTHONHASHSEED={hash_seeds[tier][0]} and {hs}",
                    )
            total.merge(r)
            total.extra[f"hashseed_{hs}_transitions"] += r.transitions
        return mod, total, len(shards) * len(hash_seeds[tier])
    jobs = [(prop_id, s, tier, seed) for s in shards]
    if NPROC <= 1 or len(jobs) <= 1:
        for j in jobs:
            total.merge(_work(j))
    else:
        ctx = mp.get_context("fork")
        with ctx.Pool(min(NPROC, len(jobs)), initializer=_init_worker) as pool:
            # results merged in shard order so two runs print identical evidence
            for r in pool.imap(_work, jobs, chunksize=1):
                total.merge(r)
    return mod, total, len(shards)


def case_hash(case) -> str:
    return hashlib.sha256(json.dumps(case, sort_keys=True, default=str).encode()).hexdigest()[:16]


def write_replay(prop_id, v):
    d = os.path.join(ROOT, "replays", prop_id)
    os.makedirs(d, exist_ok=True)
    path = os.path.join(d, case_hash([v["clause"], v["input"]]) + ".json")
    with open(path, "w") as f:
        json.dump(
            {"property": prop_id, "clause": v["clause"], "input": v["input"], "detail": v["detail"]},
            f,
            indent=1,
            sort_keys=True,
            default=str,
        )
    return path


def main(argv=None):
    argv = list(sys.argv[1:] if argv is None else argv)
    prop_id = argv[0]
    tier = os.environ.get("VERIF_TIER", "quick")
    replay = None
    child = None
    record = False
    i = 1
    while i < len(argv):
        if argv[i] == "--tier":
            tier = argv[i + 1]
            i += 2
        elif argv[i] == "--replay":
            replay = argv[i + 1]
            i += 2
        elif argv[i] == "--child":
            child = argv[i + 1]
            i += 2
        elif argv[i] == "--record-known":
            record = True  # development only: add the failing inputs of this run to the committed index
            i += 1
        else:
            raise SystemExit(f"unknown argument {argv[i]}")
    seed = int(os.environ.get("VERIF_SEED", "0") or 0)
    sys.path.insert(0, ROOT)
    import warnings

    warnings.filterwarnings("ignore")
    _init_worker()

    if replay:
        mod = importlib.import_module(f"mc.props.{prop_id}")
        rec = json.load(open(replay))
        hs = rec["input"].get("PYTHONHASHSEED") if isinstance(rec.get("input"), dict) else None
        if hs is not None and str(hs) != os.environ.get("PYTHONHASHSEED"):
            # the case was found under another hash seed: replay it in an interpreter started with that seed
            os.chdir(ROOT)
            os.execve(sys.executable, [sys.executable, "-W", "ignore", "-m", "mc.runner"] + argv, dict(os.environ, PYTHONHASHSEED=str(hs)))
        viols = mod.replay(rec["input"], rec.get("clause"))
        if viols:
            for v in viols:
                print(f"REPLAY property={prop_id} clause={v['clause']} still fails: {v['detail']}")
            print(f"VIOLATION property={prop_id} replay={replay}")
            return 1
        print(f"REPLAY property={prop_id} case passes")
        return 0

    if child:
        import pickle

        mod, total, nshards = explore(prop_id, tier, seed, child=True)
        with open(child, "wb") as f:
            pickle.dump(total, f)
        return 0

    t0 = time.time()
    mod, total, nshards = explore(prop_id, tier, seed)
    if hasattr(mod, "finalize"):
        mod.finalize(total, tier)
    if total.keyset:
        total.states = len(total.keyset)
    wall = time.time() - t0
    known = load_known(prop_id)

    index = load_index(prop_id)
    if record:
        import gzip

        merged = dict(index)
        for k, (clause, cls) in total.fkeys.items():
            merged.setdefault(k, cls or clause)
        os.makedirs(os.path.dirname(index_path(prop_id)), exist_ok=True)
        with gzip.open(index_path(prop_id), "wt") as f:
            for k in sorted(merged):
                f.write(f"{k} {merged[k]}\n")
        print(f"[{prop_id}] recorded {len(merged) - len(index)} new failing inputs ({len(merged)} in the index)")
        index = merged
    known_seen = Counter()
    unknown = []
    for v in total.violations:
        if v.get("fkey") and v["fkey"] in index:
            continue
        if v["finding"] and (v["clause"], v["finding"]) in known and not v.get("fkey"):
            continue
        unknown.append(v)
    n_unknown = 0
    by_key = Counter()
    for k, (clause, cls) in total.fkeys.items():
        by_key[(clause, cls)] += 1
        if k in index:
            known_seen[("index", index[k] or cls or clause)] += 1
        else:
            n_unknown += 1
    for (clause, finding), c in sorted(total.nviol.items()):
        c -= by_key.get((clause, finding), 0)  # those were judged through the index above
        if c <= 0:
            continue
        if finding and (clause, finding) in known:
            known_seen[(clause, finding)] += c
        else:
            n_unknown += c

    desc = mod.describe(tier)
    # line coverage of the anchored y0 files (evidence that the exploration is not vacuous)
    line_cov = {}
    anchors = getattr(mod, "ANCHOR_FILES", None)
    if anchors is None:
        try:
            anchors = next(
                json.loads(l)["anchors"]["files"] for l in open(os.path.join(ROOT, "properties.jsonl")) if json.loads(l)["id"] == prop_id
            )
            anchors = [a[len("src/y0/") :] for a in anchors if a.startswith("src/y0/")]
        except Exception:  # noqa
            anchors = []
    for rel in anchors:
        ex = executable_lines(rel)
        hit = {ln for f, ln in total.lines if f == rel}
        if ex:
            line_cov[rel] = {"executable_lines": len(ex), "lines_hit": len(hit & ex)}
            if os.environ.get("VERIF_COV_MISSED"):  # development aid: which anchored lines the exploration never ran
                with open(os.environ["VERIF_COV_MISSED"], "a") as f:
                    f.write(f"{prop_id} {rel} missed: {sorted(ex - hit)}\n")
    evidence = {
        "property_id": prop_id,
        "tier": tier,
        "seed": seed,
        "level": "model_checking",
        "coverage": {
            "states": total.states,
            "transitions": total.transitions,
            "traces_validated_against_impl": total.transitions,
            "exhaustive": not total.caps,
            "bound": desc.get("bound", "") + ("; " + desc["bound_builder"] if "bound_builder" in desc else ""),
            "rule": desc.get("rule", ""),
            "distinct_outcomes": dict(sorted(total.outcomes.items())),
            "counters": dict(sorted(total.extra.items())),
            "shards": nshards,
            "caps_hit": total.caps,
            "samples": total.samples[:MAX_SAMPLES],
            "known_findings_seen": {f"{c}:{f}": n for (c, f), n in sorted(known_seen.items())},
            "anchored_file_line_coverage": line_cov,
        },
        "assumptions": desc.get("assumptions", []),
        "wall_s": round(wall, 2),
        "violations": n_unknown,
    }
    if not evidence["coverage"]["samples"]:
        evidence["coverage"]["samples"] = ["<no sample recorded>"]
    # VERIF_EVIDENCE_DIR: development runs against a deliberately broken scratch tree write their evidence elsewhere
    evdir = os.environ.get("VERIF_EVIDENCE_DIR") or os.path.join(ROOT, "evidence")
    os.makedirs(evdir, exist_ok=True)
    with open(os.path.join(evdir, f"{prop_id}.json"), "w") as f:
        json.dump(evidence, f, indent=1, sort_keys=True, default=str)

    print(
        f"[{prop_id}/{tier}] states={total.states} transitions={total.transitions} "
        f"outcomes={dict(sorted(total.outcomes.items()))} wall={wall:.1f}s"
    )
    classes = {e["predicate"]: e for e in json.load(open(os.path.join(ROOT, "known_findings.json"))).get("findings", []) if e.get("property") == prop_id}
    for (clause, finding), c in sorted(known_seen.items()):
        e = known.get((clause, finding)) or classes.get(finding) or {"what": "listed failing input (see known_findings.json)"}
        print(f"KNOWN-FINDING: property={prop_id} class={finding} cases={c}: {e['what']}")
    if unknown or n_unknown:
        shown = Counter()
        for v in unknown:
            # a few replay files per (clause, class), so that a flood in one clause cannot hide another
            if shown[(v["clause"], v["finding"])] >= 5 or sum(shown.values()) >= 40:
                continue
            shown[(v["clause"], v["finding"])] += 1
            path = write_replay(prop_id, v)
            print(f"  clause={v['clause']} class={v['finding']} input={json.dumps(v['input'], default=str)[:300]}")
            print(f"  detail: {str(v['detail'])[:400]}")
            print(f"VIOLATION property={prop_id} replay={path}")
        print(f"[{prop_id}] {n_unknown} violating cases in classes {sorted(k for k in total.nviol if not (k[1] and k in known))}")
        return 1
    return 0


if __name__ == "__main__":
    # run the one imported copy of this module (property modules import mc.runner; a second copy named __main__ would
    # have its own Res class and its own class-level index)
    from mc import runner as _runner

    sys.exit(_runner.main())
