"""Helpers to build real y0 objects from graph specs and to read them back as set triples."""

from __future__ import annotations

from y0.dsl import Variable
from y0.graph import NxMixedGraph

from .graphs import G


def V(name: str) -> Variable:
    return Variable(name)


def to_y0(g: G, node_order=None, reverse_edges=False) -> NxMixedGraph:
    nodes = list(node_order) if node_order is not None else list(g.nodes)
    di = list(g.di)
    bi = list(g.bi)
    if reverse_edges:
        di = di[::-1]
        bi = [(b, a) for a, b in bi[::-1]]
    return NxMixedGraph.from_str_edges(nodes=nodes, directed=di, undirected=bi)


def triple(graph: NxMixedGraph):
    """(frozenset nodes, frozenset directed edges, frozenset of frozenset undirected edges) by name/str."""
    return (
        frozenset(str(n) for n in graph.nodes()),
        frozenset((str(u), str(v)) for u, v in graph.directed.edges()),
        frozenset(frozenset((str(u), str(v))) for u, v in graph.undirected.edges()),
    )


def ref_triple(g: G):
    return (frozenset(g.nodes), frozenset(g.di), frozenset(frozenset(e) for e in g.bi))


def snapshot(graph: NxMixedGraph):
    """Order-sensitive snapshot used to detect mutation of a receiver."""
    return (
        tuple(graph.directed.nodes()),
        tuple(graph.undirected.nodes()),
        tuple(graph.directed.edges()),
        tuple(graph.undirected.edges()),
    )


def from_y0(graph: NxMixedGraph) -> G:
    nodes = tuple(sorted(str(n) for n in graph.nodes()))
    di = tuple(sorted((str(u), str(v)) for u, v in graph.directed.edges()))
    bi = tuple(sorted(tuple(sorted((str(u), str(v)))) for u, v in graph.undirected.edges()))
    return G(nodes, di, bi)
