"""Evaluator of y0 ``Expression`` objects on a witness world (DESIGN.md section 2.4).

``compile_expr(expr)`` turns the expression tree into nested closures once; the closure is then
called with an environment for every value assignment.  An environment maps ``(name, star)`` to a
value, ``star`` in {None, False, True}:

* ``(N, None)``  value of an un-starred occurrence of N,
* ``(N, False)`` value written ``-N`` (as outcome value or as intervention subscript),
* ``(N, True)``  value written ``+N``.

``Sum[N]`` ranges over the full domain of N and rebinds ``(N, None)`` and ``(N, False)``; so a
subscript ``-N`` inside the summand refers to the bound value, and outside any sum to whatever the
caller put in the environment (for the L2 algorithms: the value of N in the assignment being
evaluated).

The world object provides ``card`` (name -> cardinality) and
``joint(pop, [(name, world, value), ...]) -> Fraction`` where ``world`` is a frozenset of
``(name, value)`` interventions.
"""

from __future__ import annotations

import itertools as itt
from fractions import Fraction

from y0.dsl import (
    CounterfactualVariable,
    Fraction as YFraction,
    One,
    PopulationProbability,
    Probability,
    Product,
    QFactor,
    Sum,
    Zero,
)

from .scm import h

ONE = Fraction(1)
ZERO = Fraction(0)


class Undefined(Exception):
    """0/0, x/0 or conditioning on a null event."""


class MultiWorld(Exception):
    """A single probability term mixes variables of different worlds."""


class Malformed(Exception):
    """The expression cannot be read (unknown variable, unbound value, ...)."""


def _var_items(v):
    """(name, star, tuple of (iname, istar)) of a variable occurrence."""
    if isinstance(v, CounterfactualVariable):
        ivs = tuple(sorted((i.name, i.star) for i in v.interventions))
    else:
        ivs = ()
    return v.name, v.star, ivs


def compile_expr(expr, card, qfactor_salt=0, bind_false=True, literal_names=frozenset()):
    """Return (fn(env, world) -> Fraction, free) where free is the set of (name, star) keys read from env."""
    free = set()

    def comp(e, bound: frozenset):
        if isinstance(e, Probability):  # includes PopulationProbability
            pop = e.population.name if isinstance(e, PopulationProbability) else None
            ch = [_var_items(v) for v in e.children]
            pa = [_var_items(v) for v in e.parents]
            for name, star, ivs in ch + pa:
                if name not in card:
                    raise Malformed(f"variable {name} is not a node of the model")
                if (name, star) not in bound:
                    free.add((name, star))
                for iname, istar in ivs:
                    if iname not in card:
                        raise Malformed(f"intervention on {iname} which is not a node of the model")
                    if (iname, istar) not in bound:
                        free.add((iname, istar))

            def resolve(items, env):
                out = []
                for name, star, ivs in items:
                    w = frozenset((iname, env[(iname, istar)]) for iname, istar in ivs)
                    out.append((name, w, env[(name, star)]))
                return out

            if not pa:

                def f_joint(env, world, ch=ch, pop=pop):
                    return world.joint(pop, resolve(ch, env))

                return f_joint

            def f_cond(env, world, ch=ch, pa=pa, pop=pop):
                p = resolve(pa, env)
                den = world.joint(pop, p)
                if den == 0:
                    raise Undefined(f"conditioning on a null event in {e}")
                return world.joint(pop, resolve(ch, env) + p) / den

            return f_cond
        if isinstance(e, Product):
            fs = [comp(x, bound) for x in e.expressions]

            def f_prod(env, world, fs=fs):
                r = ONE
                for f in fs:
                    r *= f(env, world)
                return r

            return f_prod
        if isinstance(e, YFraction):
            fn, fd = comp(e.numerator, bound), comp(e.denominator, bound)

            def f_frac(env, world):
                d = fd(env, world)
                if d == 0:
                    raise Undefined(f"zero denominator in {e}")
                return fn(env, world) / d

            return f_frac
        if isinstance(e, Sum):
            names = sorted(r.name for r in e.ranges)
            for r in e.ranges:
                if r.star is not None or isinstance(r, CounterfactualVariable):
                    raise Malformed(f"sum range {r!r} is not a plain variable")
                if r.name not in card:
                    raise Malformed(f"sum over {r.name} which is not a node of the model")
            # names in literal_names keep their -N subscripts literal (query variables); others are bound together with N
            bf = [n for n in names if bind_false and n not in literal_names]
            inner_bound = bound | {(n, None) for n in names} | {(n, False) for n in bf}
            f = comp(e.expression, inner_bound)
            doms = [range(card[n]) for n in names]

            def f_sum(env, world, f=f, names=names, doms=doms, bf=frozenset(bf)):
                env2 = dict(env)
                r = ZERO
                for vals in itt.product(*doms):
                    for n, v in zip(names, vals):
                        env2[(n, None)] = v
                        if n in bf:
                            env2[(n, False)] = v
                    r += f(env2, world)
                return r

            return f_sum
        if isinstance(e, One):
            return lambda env, world: ONE
        if isinstance(e, Zero):
            return lambda env, world: ZERO
        if isinstance(e, QFactor):
            dom = sorted(_var_items(v) for v in e.domain)
            cod = sorted(_var_items(v) for v in e.codomain)
            for name, star, ivs in dom + cod:
                if name not in card:
                    raise Malformed(f"variable {name} is not a node of the model")
                if (name, star) not in bound:
                    free.add((name, star))

            def f_q(env, world, dom=dom, cod=cod):
                # opaque positive function of the named values (Q-factors only occur in print/parse checks)
                key = (
                    tuple((n, env[(n, s)]) for n, s, _ in dom),
                    tuple((n, env[(n, s)]) for n, s, _ in cod),
                )
                return Fraction(1 + h("Q", qfactor_salt, key) % 97, 101)

            return f_q
        raise Malformed(f"unknown expression node {type(e).__name__}: {e!r}")

    fn = comp(expr, frozenset())
    return fn, free


def envs(card, free, link_false_to_plain=True):
    """All environments over the base names occurring in ``free``.

    With ``link_false_to_plain`` (L2 convention) ``(N, False)`` and ``(N, None)`` are the same value;
    ``(N, True)`` is not provided (an L2 estimand must not mention a ``+`` value).
    """
    names = sorted({n for n, _ in free})
    for vals in itt.product(*[range(card[n]) for n in names]):
        env = {}
        for n, v in zip(names, vals):
            env[(n, None)] = v
            env[(n, False)] = v
        yield env


def walk(expr):
    """Yield every node of the expression tree."""
    yield expr
    if isinstance(expr, Product):
        for x in expr.expressions:
            yield from walk(x)
    elif isinstance(expr, YFraction):
        yield from walk(expr.numerator)
        yield from walk(expr.denominator)
    elif isinstance(expr, Sum):
        yield from walk(expr.expression)
