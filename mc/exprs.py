"""Breadth-first exploration of y0 DSL operation sequences (shared by C10, C11, C12, C13).

A *state* is a real y0 ``Expression`` object reached from the atom alphabet by a sequence of DSL
operations; states are deduplicated by exact structure (``struct_key``).  A *transition* applies one
operation of the menu to a state (binary operations take the second argument from the atoms).  The
reference model of a state is its *value function*: the closure obtained by compiling the object
with mc.semantics over a generic table world (an arbitrary positive joint table per (population,
intervention assignment)); the reference model of a transition is the mathematical operation applied
to the value functions of its arguments.
"""

from __future__ import annotations

import itertools as itt
from fractions import Fraction as Fr
from functools import lru_cache

from y0.dsl import (
    CounterfactualVariable,
    Distribution,
    Fraction,
    Intervention,
    One,
    P,
    PopulationProbability,
    Probability,
    Product,
    QFactor,
    Sum,
    Variable,
    Zero,
)

from .scm import h
from .semantics import Malformed, MultiWorld, Undefined, compile_expr

NAMES = ("A", "B", "C")
NAMES_PRINT = ("A", "B", "C", "D")  # the print/parse family has a fourth variable (it needs no joint tables)
CARD = {"A": 2, "B": 3, "C": 2, "D": 2}
A, B, C = (Variable(n) for n in NAMES)
D = Variable("D")
PI1 = Variable("π1")
PI2 = Variable("π2")


# ------------------------------------------------------------------------------------ world


class TableWorld:
    """An arbitrary strictly positive joint table for every (population, intervention assignment).

    Intervened variables take their assigned value with probability one (effectiveness); nothing else is
    assumed, so only identities of probability calculus hold between the tables.
    """

    def __init__(self, salt=0):
        self.salt = salt
        self.card = CARD
        self._tab = {}
        self._marg = {}

    def table(self, pop, w):
        k = (pop, w)
        t = self._tab.get(k)
        if t is None:
            fixed = dict(w)
            t = {}
            for vals in itt.product(*[range(CARD[n]) for n in NAMES]):
                if any(fixed.get(n, v) != v for n, v in zip(NAMES, vals)):
                    continue
                t[vals] = 1 + h("tw", self.salt, pop, sorted(w), vals) % 23
            self._tab[k] = (t, sum(t.values()))
            t = self._tab[k]
        return t

    def joint(self, pop, items):
        items = list(items)
        worlds = {w for _, w, _ in items}
        if len(worlds) != 1:
            raise MultiWorld(f"term mixes worlds {sorted(map(sorted, worlds))}")
        (w,) = worlds
        if len(dict(w)) != len(w):
            raise Malformed(f"intervention set assigns two values to one variable: {sorted(w)}")
        key = (pop, w, frozenset((n, v) for n, _, v in items))
        r = self._marg.get(key)
        if r is None:
            tab, total = self.table(pop, w)
            want = {}
            ok = True
            for n, _, v in items:
                if want.setdefault(n, v) != v:
                    ok = False
            if not ok:
                r = Fr(0)
            else:
                idx = [(NAMES.index(n), v) for n, v in want.items()]
                r = Fr(sum(x for k, x in tab.items() if all(k[i] == v for i, v in idx)), total)
            self._marg[key] = r
        return r


class OpaqueWorld:
    """Every joint term is an arbitrary positive rational determined by the *set* of its (variable, world, value) items
    and its population: any structural change other than reordering changes the value (used for print/parse)."""

    def __init__(self, salt=0):
        self.salt = salt
        self.card = CARD

    def joint(self, pop, items):
        key = sorted((n, tuple(sorted(w)), v) for n, w, v in items)
        return Fr(1 + h("opaque", self.salt, pop, key) % 89, 97)


def all_envs(linked: bool, plus: bool, names=NAMES):
    """Environments over the given variable names.

    linked: (N, None) and (N, False) are one value (L2 convention); otherwise independent.
    plus:   also provide an independent (N, True) value.
    """
    slots = []
    for n in names:
        slots.append(((n, None), range(CARD[n])))
        if not linked:
            slots.append(((n, False), range(CARD[n])))
        if plus:
            slots.append(((n, True), range(CARD[n])))
    out = []
    for vals in itt.product(*[r for _, r in slots]):
        env = {k: v for (k, _), v in zip(slots, vals)}
        if linked:
            for n in names:
                env[(n, False)] = env[(n, None)]
        out.append(env)
    return out


def relevant_envs(envs, free):
    """One representative env per assignment of the keys in ``free`` (others fixed at the first value seen)."""
    seen = {}
    keys = sorted(free, key=str)
    for env in envs:
        k = tuple(env.get(x) for x in keys)
        if k not in seen:
            seen[k] = env
    return list(seen.values())


# ------------------------------------------------------------------------------------ structure


def vkey(v):
    if isinstance(v, CounterfactualVariable):
        return ("CF", v.name, v.star, tuple(sorted((i.name, i.star) for i in v.interventions)))
    if isinstance(v, Intervention):
        return ("I", v.name, v.star)
    return ("V", v.name, v.star)


def struct_key(e):
    if isinstance(e, PopulationProbability):
        return ("PP", vkey(e.population), tuple(map(vkey, e.children)), tuple(map(vkey, e.parents)))
    if isinstance(e, Probability):
        return ("P", tuple(map(vkey, e.children)), tuple(map(vkey, e.parents)))
    if isinstance(e, Product):
        return ("*",) + tuple(struct_key(x) for x in e.expressions)
    if isinstance(e, Sum):
        return ("S", tuple(sorted(map(vkey, e.ranges))), struct_key(e.expression))
    if isinstance(e, Fraction):
        return ("/", struct_key(e.numerator), struct_key(e.denominator))
    if isinstance(e, One):
        return ("1",)
    if isinstance(e, Zero):
        return ("0",)
    if isinstance(e, QFactor):
        return ("Q", tuple(sorted(map(vkey, e.domain))), tuple(sorted(map(vkey, e.codomain))))
    raise TypeError(type(e))


class NotWellScoped(Exception):
    pass


def scope(e):
    """Free names of e (outcome names and subscript names); raises NotWellScoped (DESIGN 2.4)."""
    if isinstance(e, Probability):
        outs = [v.name for v in itt.chain(e.children, e.parents)]
        subs = set()
        for v in itt.chain(e.children, e.parents):
            if isinstance(v, CounterfactualVariable):
                subs |= {i.name for i in v.interventions}
        if len(set(outs)) != len(outs) or (set(outs) & subs):
            raise NotWellScoped(f"distribution {e} mentions a variable name twice")
        return set(outs) | subs
    if isinstance(e, Product):
        out = set()
        for x in e.expressions:
            out |= scope(x)
        return out
    if isinstance(e, Fraction):
        if isinstance(e.denominator, Zero):
            raise NotWellScoped("zero denominator")
        return scope(e.numerator) | scope(e.denominator)
    if isinstance(e, Sum):
        inner = scope(e.expression)
        names = {r.name for r in e.ranges}
        if not names <= inner:
            raise NotWellScoped(f"sum index {sorted(names - inner)} does not occur free in the summand")
        return inner - names
    if isinstance(e, (One, Zero)):
        return set()
    if isinstance(e, QFactor):
        return {v.name for v in e.domain} | {v.name for v in e.codomain}
    raise TypeError(type(e))


def marked_only_sum_index(e) -> bool:
    """True if some Sum ranges over a name that its summand mentions only as a '+'-marked value (e.g. Sum[A](P(+A))).

    Whether such a sum ranges over the marked occurrence is not defined by the notation (the evaluator keeps +A literal,
    y0 treats it as the variable); such expressions are outside every judged family."""
    from .semantics import walk

    for node in walk(e):
        if isinstance(node, Sum):
            names = {r.name for r in node.ranges}
            occ = {}
            for sub in walk(node.expression):
                if isinstance(sub, Probability):
                    for v in itt.chain(sub.children, sub.parents):
                        occ.setdefault(v.name, set()).add(v.star)
                        if isinstance(v, CounterfactualVariable):
                            for i in v.interventions:
                                occ.setdefault(i.name, set()).add(i.star)
            for n in names:
                if n in occ and occ[n] == {True}:
                    return True
    return False


def is_well_scoped(e) -> bool:
    if marked_only_sum_index(e):
        return False
    try:
        scope(e)
        return True
    except NotWellScoped:
        return False


def contains_zero_factor(e) -> bool:
    """A literal Zero as a proper sub-node (only raw constructors can build that: the public operators absorb zeros).

    Such trees are outside the canonicaliser's domain (a denominator that is syntactically zero-valued)."""
    from .semantics import walk

    return any(isinstance(x, Zero) for x in walk(e) if x is not e)


def outcome_names(e) -> set:
    """Names that occur as a (non-subscript) variable of some distribution, or as a sum index."""
    if isinstance(e, Probability):
        return {v.name for v in itt.chain(e.children, e.parents)}
    if isinstance(e, Product):
        return set().union(*[outcome_names(x) for x in e.expressions])
    if isinstance(e, Fraction):
        return outcome_names(e.numerator) | outcome_names(e.denominator)
    if isinstance(e, Sum):
        return outcome_names(e.expression) | {r.name for r in e.ranges}
    if isinstance(e, QFactor):
        return {v.name for v in e.domain} | {v.name for v in e.codomain}
    return set()


# ------------------------------------------------------------------------------------ states


class State:
    __slots__ = ("expr", "key", "fn", "free", "ws", "hist", "err")

    def __init__(self, expr, hist, linked=True):
        self.expr = expr
        self.key = struct_key(expr)
        self.hist = hist
        self.err = None
        try:
            self.fn, self.free = compile_expr(expr, CARD, bind_false=linked)
        except Malformed as e:
            self.fn, self.free, self.err = None, set(), str(e)
        self.ws = is_well_scoped(expr)

    def value(self, env, world):
        """Fraction, or None when undefined / not evaluable."""
        try:
            return self.fn(env, world)
        except (Undefined, MultiWorld, Malformed, KeyError):
            return None


PLANS = {"quick": (("a24", 1),), "thorough": (("a24", 1), ("a12", 2))}


def atoms(alpha, family="calc"):
    """The atom alphabet, simplest first (alpha: 'a12' or 'a24'; tier names are accepted for convenience)."""
    tier = {"a12": "quick", "a24": "thorough"}.get(alpha, alpha)
    if family == "calc":
        base = [
            P(A),
            P(B),
            P(A, B),
            P(A | B),
            P(B | A),
            P(C | A),
            P(A, B, C),
            P(A | (B, C)),
            P[C](A),
            PopulationProbability(population=PI1, distribution=Distribution(children=(A,))),
            One(),
            Zero(),
        ]
        if tier == "thorough":
            base += [
                P(C),
                P(A, C),
                P(B, C),
                P(B | C),
                P(C | B),
                P(A, B | C),
                P(B, C | A),
                P(C | (A, B)),
                P[C](B | A),
                P[C](A, B),
                P[+C](A),
                PopulationProbability(population=PI1, distribution=Distribution(children=(A,), parents=(B,))),
                # one input per shortcut visible in the code: population-tagged (interventional) joints for Sum.simplify,
                # two-intervention subscripts that differ only in value marks (sort keys over frozensets), repeated factors
                # and unequal multiplicities for fraction cancellation, sums that differ only in their ranges
                PopulationProbability(population=PI1, distribution=Distribution(children=(A, B))),
                PopulationProbability(population=PI1, distribution=Distribution(children=(A, B))).intervene(C),
                P(A @ (-B, +C)),
                P(A @ (+B, -C)),
                P(A) * P(A),
                Fraction(P(A) * P(A) * P(B), P(A) * P(C)),
                Sum[A](P(A, B | C)),
                Sum[B](P(A, B | C)),
                # counterfactual variables that differ only in their own value mark (anything keyed on text must keep it)
                P((+A) @ C),
                P((-A) @ C),
                # a reciprocal and a fraction over a product: dividing one by the other sends a product and a literal one
                # through Fraction.__truediv__ / Product.__mul__ (the flattening path of the canonicaliser)
                One() / P(B),
                P(A | B) / (P(B) * P(C | B)),
                # the same distribution under a second population (anything memoised on the distribution alone must keep
                # the population apart; after seeded C10-h)
                PopulationProbability(population=PI2, distribution=Distribution(children=(A, B))),
            ]
        return base
    if family == "print":
        from y0.dsl import Q

        base = [
            P(A),
            P(A | B),
            P(A, B | C),
            P[C](A),
            P(+A),
            P(-A | +B),
            PopulationProbability(population=PI1, distribution=Distribution(children=(A,))),
            Q[A](B),
            One(),
            Zero(),
        ]
        if tier == "thorough":
            base += [
                P(B, C),
                P[+C](A | B),
                P[C, +B](A),
                P((+A) @ C),
                P((-A) @ (+C), B @ (+C)),
                P(A @ B, C),
                PopulationProbability(population=PI1, distribution=Distribution(children=(A,), parents=(B,))).intervene(C),
                Q[A, B](C),
                # first variable's world a proper subset of the others' (level-2 shorthand must not be used)
                P(A @ C, B @ (C, D)),
                P(B @ C | A @ (C, +D)),
                # factors whose sort keys tie (sums that differ only in their ranges, Q-factors with equal minima)
                Sum[A](P(A, B | C)),
                Sum[B](P(A, B | C)),
                Q[A](B, C),
                Q[A](B, D),
                # a conditional distribution conditioned again on a joint (parents arrive out of name order)
                P(A | D | B & C),
                # Q-factors over intervened variables
                Q[A](B @ C, D),
                Q[A @ (+C)](B),
                # a product as an atom: one more operation makes it a denominator, the next one the summand of a Sum
                P(B, C) * P(A | B),
                # value-marked variables with several subscripts in the per-variable (@) form (probability whose
                # variables do not share one world; Q-factor)
                P((+A) @ (B, +C) | D),
                P((-A) @ (C, D), (+B) @ C),
                Q[A]((+B) @ (C, D)),
            ]
        return base
    raise ValueError(family)


RANGES = [tuple(c) for r in (1, 2, 3) for c in itt.combinations((A, B, C), r)]
ORDERINGS = [tuple(p) for p in itt.permutations((A, B, C))]


def menu(e, atom_list, tier, with_raw=True, public_only=False):
    """Yield (opname, args_repr, thunk, ref) for every operation applicable to expression e.

    ``ref`` describes the reference semantics: ("id",) value-preserving rewrite of e; ("mul", b) etc.
    """
    from y0.mutate import canonicalize
    from y0.mutate.chain import bayes_expand, chain_expand, fraction_expand
    from y0.mutate.contract import contract, recursive_contract

    for i, b in enumerate(atom_list):
        yield "mul", f"e*atom{i}", (lambda b=b: e * b), ("mul", b, False)
        yield "rmul", f"atom{i}*e", (lambda b=b: b * e), ("mul", b, True)
        yield "div", f"e/atom{i}", (lambda b=b: e / b), ("div", b, False)
        yield "rdiv", f"atom{i}/e", (lambda b=b: b / e), ("div", b, True)
    for r in RANGES:
        rn = ",".join(v.name for v in r)
        yield "sum", f"Sum[{rn}](e)", (lambda r=r: Sum[r](e)), ("sum", r)
        yield "marginalize", f"e.marginalize({rn})", (lambda r=r: e.marginalize(r)), ("sum", r)
        yield "conditional", f"e.conditional({rn})", (lambda r=r: e.conditional(r)), ("cond", r)
    if not isinstance(e, Probability):
        # conditions written the way they occur in the expression (intervened or value-marked), not as plain variables
        occurring = sorted(
            {v for v in e.get_variables() if not isinstance(v, Intervention) and (isinstance(v, CounterfactualVariable) or v.star is not None)},
            key=str,
        )
        for v in occurring[:3]:
            yield "conditional", f"e.conditional(<{v}>)", (lambda v=v: e.conditional(v)), ("cond", (Variable(v.name),))
    if public_only:
        return
    if isinstance(e, Fraction):
        yield "fraction_simplify", "e.simplify()", (lambda: e.simplify()), ("id",)
        yield "contract", "contract(e)", (lambda: contract(e)), ("id",)
    if isinstance(e, Sum):
        yield "sum_simplify", "e.simplify()", (lambda: e.simplify()), ("id",)
    yield "recursive_contract", "recursive_contract(e)", (lambda: recursive_contract(e)), ("id",)
    for o in ORDERINGS if tier == "thorough" else (ORDERINGS[0], ORDERINGS[-1], None):
        on = "None" if o is None else ",".join(v.name for v in o)
        yield "canonicalize", f"canonicalize(e,[{on}])", (lambda o=o: canonicalize(e, o)), ("id",)
    if isinstance(e, Probability):
        yield "fraction_expand", "fraction_expand(e)", (lambda: fraction_expand(e)), ("id",)
        yield "bayes_expand", "bayes_expand(e)", (lambda: bayes_expand(e)), ("id",)
        yield "chain_expand", "chain_expand(e)", (lambda: chain_expand(e)), ("id_markov",)
        yield "chain_expand", "chain_expand(e,reorder=False)", (lambda: chain_expand(e, reorder=False)), ("id_markov",)
        if e.parents:
            # an explicit ordering only has to cover the children; the conditions come along whatever it says
            kids = sorted(e.children, key=lambda v: v.name)
            for label, oo in (("children", kids), ("children-reversed", kids[::-1])):
                yield "chain_expand", f"chain_expand(e,ordering={label})", (lambda oo=oo: chain_expand(e, ordering=oo)), ("id_markov",)
        own = [v for v in e.get_variables() if not isinstance(v, Intervention)]
        for o in ORDERINGS[:: (1 if tier == "thorough" else 5)]:
            on = ",".join(v.name for v in o)
            # the ordering is given in terms of the probability's own (possibly intervened) variables
            oo = [w for v in o for w in own if w.name == v.name] + [v for v in o if all(w.name != v.name for w in own)]
            yield "chain_expand", f"chain_expand(e,ordering=[{on}])", (lambda oo=oo: chain_expand(e, ordering=oo)), ("id_markov",)
    if with_raw:
        # raw constructors: the four simplest atoms and every composite one (a raw fraction of two fractions is the only
        # way to hand the canonicaliser an un-flattened compound fraction)
        raw_atoms = [(i, b) for i, b in enumerate(atom_list) if i < 4 or isinstance(b, (Fraction, Product))]
        for i, b in raw_atoms:
            yield "raw_product", f"Product((e,atom{i}))", (lambda b=b: Product((e, b))), ("mul", b, False)
            yield "raw_product", f"Product((atom{i},e))", (lambda b=b: Product((b, e))), ("mul", b, True)
            if not isinstance(b, Zero):
                yield "raw_fraction", f"Fraction(e,atom{i})", (lambda b=b: Fraction(e, b)), ("div", b, False)
            if not isinstance(e, Zero):
                yield "raw_fraction", f"Fraction(atom{i},e)", (lambda b=b: Fraction(b, e)), ("div", b, True)
        yield "raw_sum", "Sum(e,{A})", (lambda: Sum(e, frozenset({A}))), ("sum", (A,))


def ref_value(ref, st: State, env, world, atom_states):
    """Value of the mathematical operation described by ``ref`` applied to state st (and an atom) at env."""
    kind = ref[0]
    if kind in ("id", "id_markov"):
        return st.value(env, world)
    if kind == "mul":
        x, y = st.value(env, world), atom_states[struct_key(ref[1])].value(env, world)
        return None if x is None or y is None else x * y
    if kind == "div":
        x, y = st.value(env, world), atom_states[struct_key(ref[1])].value(env, world)
        if ref[2]:
            x, y = y, x
        if x is None or y is None or y == 0:
            return None
        return x / y
    if kind == "sum":
        return _sum_over(st, [v.name for v in ref[1]], env, world)
    if kind == "cond":
        keep = {v.name for v in ref[1]}
        over = sorted(outcome_names(st.expr) - keep)
        num = st.value(env, world)
        den = _sum_over(st, over, env, world) if over else num
        if num is None or den is None or den == 0:
            return None
        return num / den
    raise ValueError(kind)


def _sum_over(st, names, env, world):
    total = Fr(0)
    env2 = dict(env)
    for vals in itt.product(*[range(CARD[n]) for n in names]):
        for n, v in zip(names, vals):
            env2[(n, None)] = v
            env2[(n, False)] = v
        x = st.value(env2, world)
        if x is None:
            return None
        total += x
    return total


@lru_cache(maxsize=None)
def level(alpha, depth, family="calc"):
    """Atoms plus every state at most ``depth`` operations away (dedup by structure), with operation histories."""
    al = atoms(alpha, family)
    tier = "thorough" if alpha == "a24" else "quick"
    states = {}
    for i, a in enumerate(al):
        s = State(a, [f"atom{i}={a}"], linked=(family != "print"))
        states.setdefault(s.key, s)
    frontier = list(states)
    for _ in range(depth):
        nxt = []
        for k in frontier:
            st = states[k]
            for op, desc, thunk, ref in menu(st.expr, al, tier, public_only=(family == "print")):
                try:
                    r = thunk()
                except Exception:  # noqa  (exceptions are judged when this state is explored as a source)
                    continue
                s = State(r, st.hist + [desc], linked=(family != "print"))
                if s.key not in states:
                    states[s.key] = s
                    nxt.append(s.key)
        frontier = nxt
    return al, list(states.values())


def plan_shards(tier, size, family="calc", plans=None):
    out = []
    for alpha, depth in (plans or PLANS)[tier]:
        _, sts = level(alpha, depth, family)
        out += [(alpha, depth, i, min(i + size, len(sts))) for i in range(0, len(sts), size)]
    return out


# ------------------------------------------------------------------------------------ explorer


def h64(key) -> int:
    return h("state", repr(key))


class Explorer:
    """Explores all transitions from the level-1 states of one shard and calls the property's hooks."""

    def __init__(self, alpha, depth, seed, family="calc", tier="quick"):
        self.alpha = alpha
        self.tier = "thorough" if alpha == "a24" else "quick"  # which menu variant (orderings) goes with the alphabet
        self.family = family
        self.atom_list, self.l1 = level(alpha, depth, family)
        self.atom_states = {}
        for i, a in enumerate(self.atom_list):
            s = State(a, [f"atom{i}={a}"], linked=(family != "print"))
            self.atom_states.setdefault(s.key, s)
        if family == "print":
            self.worlds = [OpaqueWorld(salt=f"o{seed}")]
            # every key a state can read is enumerated through relevant_envs(); the base list only fixes the others
            self.envs = None
        else:
            self.worlds = [TableWorld(salt=f"w{seed}")] + ([TableWorld(salt=f"x{seed}")] if tier == "thorough" else [])
            plus = any("+" in str(a) for a in self.atom_list)
            self.envs = all_envs(linked=True, plus=plus)

    def envs_for(self, *free_sets):
        free = set().union(*free_sets) if free_sets else set()
        if self.envs is None:
            # print family: enumerate exactly the keys that are read (plain, - and + values are independent)
            keys = sorted(free, key=str)
            return [dict(zip(keys, vals)) for vals in itt.product(*[range(CARD[n]) for n, _ in keys])]
        return relevant_envs(self.envs, free)

    def run(self, res, lo, hi, on_state=None, on_transition=None):
        seen = set()
        for st in self.l1[lo:hi]:
            if on_state and st.key not in seen:
                seen.add(st.key)
                res.keyset.add(h64(st.key))
                on_state(self, res, st)
            for op, desc, thunk, ref in menu(st.expr, self.atom_list, self.tier, public_only=(self.family == "print")):
                res.transitions += 1
                try:
                    r = thunk()
                    exc = None
                except Exception as e:  # noqa
                    r, exc = None, e
                rs = None
                if r is not None:
                    rs = State(r, st.hist + [desc], linked=(self.family != "print"))
                if on_transition:
                    on_transition(self, res, st, op, desc, ref, rs, exc)
                if rs is not None and on_state and rs.key not in seen:
                    seen.add(rs.key)
                    res.keyset.add(h64(rs.key))
                    on_state(self, res, rs)


def case_of(st: State, extra=None):
    c = {"ops": list(st.hist), "expr": str(st.expr)}
    if extra:
        c.update(extra)
    return c


def rebuild(hist, alpha, family="calc"):
    """Re-run an operation history (as recorded in a replay file) and return the resulting State."""
    al = atoms(alpha, family)
    tier = "thorough" if alpha == "a24" else "quick"
    first = hist[0]
    idx = int(first.split("=")[0][4:])
    linked = family != "print"
    st = State(al[idx], [first], linked=linked)
    for desc in hist[1:]:
        for op, d, thunk, ref in menu(st.expr, al, tier, public_only=(family == "print")):
            if d == desc:
                st = State(thunk(), st.hist + [desc], linked=linked)
                break
        else:
            raise KeyError(f"operation {desc!r} is not applicable while replaying")
    return st
