"""Operation sequences on ONE live NxMixedGraph object (the "builder" phases).

A sequence is a list of edge insertions over a small name set; the live y0 object and the set-triple reference are
advanced in lock-step and a property-specific judge is called after every insertion.  Caches that survive an in-place
edit (memo on the graph object, module-level memo keyed on id(graph), stale derived structure) are only reachable this
way: every single-shot case builds a fresh graph.
"""

from __future__ import annotations

import itertools as itt

from .graphs import G, is_acyclic
from .y0util import V

NAMES4 = ("A", "B", "C", "D")
NAMES3 = ("A", "B", "C")


def build_ops(names=NAMES4):
    ops = [("d", u, v) for u in names for v in names if u != v]
    ops += [("b", u, v) for u, v in itt.combinations(names, 2)]
    return ops


def move_ops(names=NAMES3):
    """Edge moves: one existing edge is taken out of the underlying networkx graph (``y.directed`` / ``y.undirected`` are
    public attributes) and another edge of the same kind is put in, as ONE step: node and edge counts stay the same, so a
    memo validated by counts, sizes or ``id(graph)`` survives the edit (seeded change C02-g)."""
    d = [(u, v) for u in names for v in names if u != v]
    b = list(itt.combinations(names, 2))
    return [("md", e, f) for e in d for f in d if e != f] + [("mb", e, f) for e in b for f in b if e != f]


def _apply_move(y, nodes, di, bi, op):
    """Apply a move to the live object and the reference lists; False if it is not applicable (then nothing is changed)."""
    kind, e, f = op
    if kind == "md":
        if e not in di or f in di:
            return False
        new = [x for x in di if x != e] + [f]
        if not is_acyclic(nodes, new):
            return False
        di[:] = new
        y.directed.remove_edge(V(e[0]), V(e[1]))
        y.add_directed_edge(V(f[0]), V(f[1]))
    else:
        if e not in bi or f in bi:
            return False
        bi[:] = [x for x in bi if x != e] + [f]
        y.undirected.remove_edge(V(e[0]), V(e[1]))
        y.add_undirected_edge(V(f[0]), V(f[1]))
    return True


def run_sequences(first, depth, judge, names=NAMES4, start_nodes=(), moves=False):
    """Every sequence of ``depth`` insertions that starts with operation number ``first``.

    judge(y, g, hist) is called on the live object ``y`` and the reference ``g`` after every valid insertion; a false
    return value abandons the sequence.  A sequence also ends at a repeated edge or a directed cycle (not applied).
    ``start_nodes`` are added with add_node before the first insertion (isolated nodes are part of the state).
    Returns the number of sequences started.
    """
    from y0.graph import NxMixedGraph

    ops = build_ops(names)
    if moves:
        ops = ops + move_ops(names)  # ``first`` always indexes an insertion (a move needs an edge to move)
    n = 0
    for tail in itt.product(range(len(ops)), repeat=depth - 1):
        seq = (first,) + tail
        n += 1
        y = NxMixedGraph()
        nodes, di, bi = list(start_nodes), [], []
        for s in start_nodes:
            y.add_node(V(s))
        hist = [["n", s, s] for s in start_nodes]
        for k in seq:
            kind, u, v = ops[k]
            if kind in ("md", "mb"):
                if any(x not in nodes for x in v):
                    break  # a move never introduces a node
                if not _apply_move(y, nodes, di, bi, ops[k]):
                    break
                hist.append([kind, list(u), list(v)])
                if not judge(y, G(tuple(nodes), tuple(di), tuple(bi)), [list(h) for h in hist]):
                    break
                continue
            hist.append([kind, u, v])
            for x in (u, v):
                if x not in nodes:
                    nodes.append(x)
            if kind == "d":
                if (u, v) in di:
                    break
                if not is_acyclic(nodes, di + [(u, v)]):
                    break
                di.append((u, v))
                y.add_directed_edge(V(u), V(v))
            else:
                if (u, v) in bi:
                    break
                bi.append((u, v))
                y.add_undirected_edge(V(u), V(v))
            if not judge(y, G(tuple(nodes), tuple(di), tuple(bi)), [list(h) for h in hist]):
                break
    return n


def replay_sequence(hist, judge):
    """Re-run one recorded history (list of [kind, u, v]); judge as above, called after every insertion."""
    from y0.graph import NxMixedGraph

    y = NxMixedGraph()
    nodes, di, bi = [], [], []
    done = []
    for kind, u, v in hist:
        done.append([kind, u, v])
        if kind == "n":
            nodes.append(u)
            y.add_node(V(u))
            continue
        if kind in ("md", "mb"):
            assert _apply_move(y, nodes, di, bi, (kind, tuple(u), tuple(v))), "recorded move is not applicable"
            if not judge(y, G(tuple(nodes), tuple(di), tuple(bi)), [list(h) for h in done]):
                break
            continue
        for x in (u, v):
            if x not in nodes:
                nodes.append(x)
        if kind == "d":
            di.append((u, v))
            y.add_directed_edge(V(u), V(v))
        else:
            bi.append((u, v))
            y.add_undirected_edge(V(u), V(v))
        if not judge(y, G(tuple(nodes), tuple(di), tuple(bi)), [list(h) for h in done]):
            break
