"""Oracle-vs-oracle cross checks (fast subset is the MANIFEST setup step)."""
import sys, time

from .graphs import (enum_L, disjoint_pairs, identifiable_hedge, identifiable_tp, msep, msep_bb, subsets)


def main():
    fast = "--fast" in sys.argv
    t0 = time.time()
    n_id = n_sep = 0
    for n in (2, 3) if fast else (2, 3, 4):
        for g in enum_L(n):
            for x, y in disjoint_pairs(g.nodes):
                n_id += 1
                assert identifiable_tp(g, x, y) == identifiable_hedge(g, x, y), (g, x, y)
            for a in g.nodes:
                for b in g.nodes:
                    if a == b:
                        continue
                    rest = [v for v in g.nodes if v not in (a, b)]
                    for c in subsets(rest):
                        n_sep += 1
                        assert msep(g, a, b, c) == msep_bb(g, a, b, c), (g, a, b, c)
    print(f"selftest ok: {n_id} identifiability and {n_sep} separation oracle pairs agree ({time.time()-t0:.1f}s)")


if __name__ == "__main__":
    main()
