"""Counterfactual events: enumeration, conversion to y0 objects, ground truth on the functional witness."""

from __future__ import annotations

import itertools as itt

from y0.dsl import CounterfactualVariable, Intervention, Variable

from .graphs import G


def sub_assignments(nodes, max_size):
    """All consistent value assignments ((name, star), ...) to subsets of nodes of size <= max_size."""
    out = [()]
    for r in range(1, max_size + 1):
        for names in itt.combinations(nodes, r):
            for stars in itt.product((False, True), repeat=r):
                out.append(tuple(zip(names, stars)))
    return out


def event_items(nodes, max_sub, reflexive=True):
    """All event items (name, subs, star): 'name under interventions subs takes value -name/+name'."""
    return [
        (v, subs, star)
        for v in nodes
        for subs in sub_assignments(nodes, max_sub)
        for star in (False, True)
        if reflexive or v not in dict(subs)
    ]


def item_key(item):
    """The y0 variable (dictionary key) of an item."""
    v, subs, _ = item
    if not subs:
        return Variable(v)
    return CounterfactualVariable(name=v, star=None, interventions=frozenset(Intervention(name=n, star=s) for n, s in subs))


def to_event(items):
    return {item_key(it): Intervention(name=it[0], star=it[2]) for it in items}


def events(nodes, m, sub_single, sub_multi, reflexive=True):
    """All conjunctions of 1..m items with distinct keys (a dict cannot hold one key twice)."""
    singles = event_items(nodes, sub_single, reflexive)
    for it in singles:
        yield (it,)
    if m >= 2:
        multi = event_items(nodes, sub_multi, reflexive)
        for r in range(2, m + 1):
            for combo in itt.combinations(multi, r):
                keys = {(it[0], it[1]) for it in combo}
                if len(keys) == len(combo):
                    yield combo


def events2(nodes, reflexive=True):
    """Quick event space: single items (<= 2 subscripts), pairs (<= 2 subscripts, <= 1 subscript), and triples made of
    one item with <= 2 subscripts and two factual items on other variables."""
    two = event_items(nodes, 2, reflexive)
    one = event_items(nodes, 1, reflexive)
    zero = event_items(nodes, 0, reflexive)
    for it in two:
        yield (it,)
    seen = set()
    for a in two:
        for b in one:
            if (a[0], a[1]) == (b[0], b[1]):
                continue
            k = frozenset((a, b))
            if k in seen:
                continue
            seen.add(k)
            yield (a, b)
    for a in two:
        for b, c in itt.combinations(zero, 2):
            if len({a[0], b[0], c[0]}) == 3:
                yield (a, b, c)


def events3w(nodes):
    """Three-world triples: three non-reflexive all-'-' items, each with at least one subscript, whose three intervention
    sets are pairwise different (copies of one variable in a first and a last world meet only here)."""
    its = [it for it in event_items(nodes, 2, reflexive=False) if it[1] and not it[2] and not any(s for _, s in it[1])]
    for combo in itt.combinations(its, 3):
        if len({frozenset(it[1]) for it in combo}) == 3:
            yield combo


def val(a, name, star):
    return a[name] if not star else 1 - a[name]


def ground_items(items, a):
    """(name, world, value) triples of the items under the base assignment a (name -> value written '-name')."""
    return [(v, frozenset((n, val(a, n, s)) for n, s in subs), val(a, v, star)) for v, subs, star in items]


def node_to_item(node, value):
    """y0 node (Variable / CounterfactualVariable) with an Intervention value -> (name, subs, star)."""
    subs = ()
    if isinstance(node, CounterfactualVariable):
        subs = tuple(sorted((i.name, bool(i.star)) for i in node.interventions))
    return (node.name, subs, bool(value.star))


def event_json(items):
    return [[v, [[n, "+" if s else "-"] for n, s in subs], "+" if star else "-"] for v, subs, star in items]


def event_from_json(js):
    return tuple((v, tuple((n, s == "+") for n, s in subs), star == "+") for v, subs, star in js)


def base_assignments(nodes):
    for vals in itt.product((0, 1), repeat=len(nodes)):
        yield dict(zip(nodes, vals))


def event_value_env(items, a):
    """Environment for reading an estimand of the event: (N, False)/(N, True) literal values; (N, None) = the event's
    own value of outcome N when that is unique.  Returns (env, ambiguous_names)."""
    env = {}
    for n in a:
        env[(n, False)] = a[n]
        env[(n, True)] = 1 - a[n]
    own = {}
    ambiguous = set()
    for v, subs, star in items:
        x = val(a, v, star)
        if v in own and own[v] != x:
            ambiguous.add(v)
        own[v] = x
    for n, x in own.items():
        if n not in ambiguous:
            env[(n, None)] = x
    return env, ambiguous
