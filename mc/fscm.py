"""Functional witness SCM with explicit exogenous noise shared across worlds (DESIGN 2.3).

Every node is binary.  v = f_v(pa(v), U_v., E_v) with an own noise E_v in {0, 1, 2}:
E_v = 0 forces v = 0, E_v = 1 forces v = 1, E_v = 2 lets v = h_v(pa(v), U_v.) for a fixed pseudo-random
boolean function h_v that depends on every argument.  Bidirected edges are binary latents U_ab that
enter h of both endpoints.  All noise terms are independent with positive rational weights from
SHA-256.  Because E_v can force either value, every joint configuration has positive probability in
every world, while worlds stay coupled through the shared noise.

The probability of a conjunction of counterfactual items (name, world, value) -- world a frozenset of
(name, value) interventions -- is obtained by enumerating every exogenous setting, solving every
mentioned world and adding the weights of the settings that satisfy all items.
"""

from __future__ import annotations

import itertools as itt
from fractions import Fraction

from .graphs import G, a_topological_order, parents
from .scm import h, latent_name

DE = 41  # denominator of the own-noise weights
DU = 17  # denominator of latent weights


class FSCM:
    def __init__(self, g: G, salt=0, node_salt=None, policy=None):
        """policy: optional dict node -> (parents tuple, salt): the node's mechanism is replaced by a fresh function of
        those parents (used for policy variables of counterfactual transport domains)."""
        self.g = g
        self.salt = salt
        self.node_salt = dict(node_salt or {})
        self.card = {v: 2 for v in g.nodes}
        self.order = a_topological_order(g)
        self.index = {v: i for i, v in enumerate(self.order)}
        self.pa = {v: tuple(sorted(parents(g, v))) for v in g.nodes}
        self.lat = tuple(latent_name(a, b) for a, b in g.bi)
        self.lat_of = {v: tuple(sorted(latent_name(a, b) for a, b in g.bi if v in (a, b))) for v in g.nodes}
        # noise weights
        self.e_w = {}
        for v in g.nodes:
            s = self.node_salt.get(v, salt)
            x = h("enoise", s, v)
            w0 = 1 + x % 11
            w1 = 1 + (x // 13) % 11
            self.e_w[v] = (w0, w1, DE - w0 - w1)
        self.u_w = {}
        for u in self.lat:
            x = h("unoise", salt, u)
            w1 = 1 + x % (DU - 1)
            self.u_w[u] = (DU - w1, w1)
        # mechanisms: truth tables keyed by named arguments
        self.hfun = {}
        for v in g.nodes:
            args = [("pa", p) for p in self.pa[v]] + [("lat", u) for u in self.lat_of[v]]
            s = self.node_salt.get(v, salt)
            self.hfun[v] = self._make_h(v, args, s)
        # exogenous settings
        self.settings = []
        self.weights = []
        enames = list(self.order)
        for evals in itt.product((0, 1, 2), repeat=len(enames)):
            ew = 1
            for v, x in zip(enames, evals):
                ew *= self.e_w[v][x]
            for uvals in itt.product((0, 1), repeat=len(self.lat)):
                w = ew
                for u, x in zip(self.lat, uvals):
                    w *= self.u_w[u][x]
                self.settings.append((dict(zip(enames, evals)), dict(zip(self.lat, uvals))))
                self.weights.append(w)
        self.total = sum(self.weights)
        self._solved = {}
        self._masks = {}
        self._np_weights = None
        self._prob_cache = {}

    @staticmethod
    def _make_h(v, args, salt):
        """A boolean function of the named binary arguments that depends on each of them."""
        if not args:
            bit = h("h0", salt, v) % 2
            return lambda named: bit
        k = len(args)
        attempt = 0
        while True:
            table = {}
            for vals in itt.product((0, 1), repeat=k):
                key = frozenset(zip(args, vals))
                table[key] = h("h", salt, attempt, v, sorted(map(str, key))) % 2
            ok = True
            for i in range(k):
                dep = False
                for vals in itt.product((0, 1), repeat=k):
                    if vals[i]:
                        continue
                    flipped = vals[:i] + (1,) + vals[i + 1 :]
                    if table[frozenset(zip(args, vals))] != table[frozenset(zip(args, flipped))]:
                        dep = True
                        break
                if not dep:
                    ok = False
                    break
            if ok:
                return lambda named, table=table, args=args: table[frozenset((a, named[a]) for a in args)]
            attempt += 1

    def solve(self, world: frozenset):
        """Values of all nodes in every exogenous setting under the interventions ``world``: list of tuples."""
        r = self._solved.get(world)
        if r is None:
            fixed = dict(world)
            r = []
            for enoise, unoise in self.settings:
                val = {}
                for v in self.order:
                    if v in fixed:
                        val[v] = fixed[v]
                    elif enoise[v] < 2:
                        val[v] = enoise[v]
                    else:
                        named = {("pa", p): val[p] for p in self.pa[v]}
                        named.update({("lat", u): unoise[u] for u in self.lat_of[v]})
                        val[v] = self.hfun[v](named)
                r.append(tuple(val[v] for v in self.order))
            self._solved[world] = r
        return r

    def mask(self, name, world, value):
        """Boolean vector over settings where variable ``name`` takes ``value`` in ``world``."""
        import numpy as np

        k = (name, world, value)
        m = self._masks.get(k)
        if m is None:
            i = self.index[name]
            m = np.fromiter((vals[i] == value for vals in self.solve(world)), dtype=bool, count=len(self.settings))
            self._masks[k] = m
        return m

    def prob_items(self, items) -> Fraction:
        """P(conjunction of (name, world, value) items), exact (integer weights, int64 sums cannot overflow for n <= 4)."""
        import numpy as np

        items = tuple(items)
        key = frozenset(items)
        hit = self._prob_cache.get(key)
        if hit is not None:
            return hit
        r = self._prob_items(items)
        self._prob_cache[key] = r
        return r

    def _prob_items(self, items) -> Fraction:
        import numpy as np

        if self._np_weights is None:
            if self.total >= 2**62:
                raise OverflowError("witness too large for int64 weights")
            self._np_weights = np.array(self.weights, dtype=np.int64)
        m = None
        for name, world, value in items:
            if len(dict(world)) != len(world):
                return Fraction(0)  # contradictory intervention set cannot be realised: treated by callers
            mk = self.mask(name, world, value)
            m = mk if m is None else (m & mk)
        if m is None:
            return Fraction(1)
        return Fraction(int(self._np_weights[m].sum()), self.total)

    def value_in_setting(self, name, world, s) -> int:
        return self.solve(world)[s][self.index[name]]


class FWorld:
    """World object for mc.semantics: joint() accepts multi-world item lists."""

    def __init__(self, models: dict):
        self.models = models
        self.card = next(iter(models.values())).card

    def joint(self, pop, items):
        if pop not in self.models:
            raise KeyError(f"undeclared population {pop!r}")
        items = list(items)
        for _, w, _ in items:
            if len(dict(w)) != len(w):
                from .semantics import Malformed

                raise Malformed(f"intervention set assigns two values to one variable: {sorted(w)}")
        return self.models[pop].prob_items(items)
