"""Graph universes (the alphabets) and the set-theoretic reference model of a mixed graph.

A graph spec is a plain, JSON-serialisable triple ``(nodes, di, bi)``:
``nodes`` tuple of names, ``di`` tuple of (u, v) directed edges, ``bi`` tuple of (u, v)
bidirected edges with u < v.  All reference operations are one-line set comprehensions
over that triple; nothing here imports y0.
"""

from __future__ import annotations

import itertools as itt
from functools import lru_cache
from typing import Iterable, Iterator, NamedTuple

NAMES = "ABCDEFGH"


class G(NamedTuple):
    nodes: tuple
    di: tuple
    bi: tuple

    def key(self) -> str:
        return "%s|%s|%s" % (
            ",".join(self.nodes),
            ",".join(f"{u}>{v}" for u, v in self.di),
            ",".join(f"{u}~{v}" for u, v in self.bi),
        )

    def to_json(self):
        return {"nodes": list(self.nodes), "di": [list(e) for e in self.di], "bi": [list(e) for e in self.bi]}

    @staticmethod
    def from_json(d) -> "G":
        return G(tuple(d["nodes"]), tuple(tuple(e) for e in d["di"]), tuple(tuple(e) for e in d["bi"]))


def _pairs(n):
    return [(i, j) for i in range(n) for j in range(i + 1, n)]


def is_acyclic(nodes: Iterable, di: Iterable) -> bool:
    nodes = set(nodes)
    preds = {v: set() for v in nodes}
    for u, v in di:
        if u == v:
            return False
        preds[v].add(u)
    done = set()
    while len(done) < len(nodes):
        ready = [v for v in nodes if v not in done and preds[v] <= done]
        if not ready:
            return False
        done.update(ready)
    return True


@lru_cache(maxsize=None)
def labelled_dags(n: int) -> tuple:
    """All DAGs on the labelled node set NAMES[:n] (n=3: 25, n=4: 543, n=5: 29281)."""
    names = NAMES[:n]
    pairs = _pairs(n)
    out = []
    for states in itt.product((0, 1, 2), repeat=len(pairs)):
        di = []
        for (i, j), s in zip(pairs, states):
            if s == 1:
                di.append((names[i], names[j]))
            elif s == 2:
                di.append((names[j], names[i]))
        if is_acyclic(names, di):
            out.append(tuple(di))
    return tuple(out)


def _bi_sets(n, names):
    pairs = _pairs(n)
    for mask in range(1 << len(pairs)):
        yield tuple((names[i], names[j]) for k, (i, j) in enumerate(pairs) if mask >> k & 1)


def enum_L(n: int, max_edges: int | None = None) -> Iterator[G]:
    """All labelled ADMGs on n named nodes (|L(2)|=6, |L(3)|=200, |L(4)|=34752)."""
    names = tuple(NAMES[:n])
    for di in labelled_dags(n):
        for bi in _bi_sets(n, names):
            if max_edges is not None and len(di) + len(bi) > max_edges:
                continue
            yield G(names, di, bi)


def enum_O(n: int, max_edges: int | None = None) -> Iterator[G]:
    """ADMGs whose directed edges respect the name order (|O(n)| = 4^C(n,2))."""
    names = tuple(NAMES[:n])
    pairs = _pairs(n)
    for dmask in range(1 << len(pairs)):
        di = tuple((names[i], names[j]) for k, (i, j) in enumerate(pairs) if dmask >> k & 1)
        for bi in _bi_sets(n, names):
            if max_edges is not None and len(di) + len(bi) > max_edges:
                continue
            yield G(names, di, bi)


def enum_D(n: int, max_edges: int | None = None) -> Iterator[G]:
    """All directed mixed graphs, cycles (incl. 2-cycles) allowed, no self loops."""
    names = tuple(NAMES[:n])
    ordered = [(i, j) for i in range(n) for j in range(n) if i != j]
    for dmask in range(1 << len(ordered)):
        di = tuple((names[i], names[j]) for k, (i, j) in enumerate(ordered) if dmask >> k & 1)
        if max_edges is not None and len(di) > max_edges:
            continue
        for bi in _bi_sets(n, names):
            if max_edges is not None and len(di) + len(bi) > max_edges:
                continue
            yield G(names, di, bi)


def enum_T(n: int) -> Iterator[tuple]:
    """All DAGs on n labelled nodes x every subset tagged latent: yields (names, di, latent_set)."""
    names = tuple(NAMES[:n])
    for di in labelled_dags(n):
        for r in range(n + 1):
            for lat in itt.combinations(names, r):
                yield names, di, frozenset(lat)


def subsets(xs, min_size=0, max_size=None) -> Iterator[tuple]:
    xs = list(xs)
    hi = len(xs) if max_size is None else min(max_size, len(xs))
    for r in range(min_size, hi + 1):
        yield from itt.combinations(xs, r)


def disjoint_pairs(nodes) -> Iterator[tuple]:
    """All ordered pairs (X, Y) of disjoint non-empty subsets."""
    nodes = list(nodes)
    for x in subsets(nodes, 1):
        rest = [v for v in nodes if v not in x]
        for y in subsets(rest, 1):
            yield x, y


def disjoint_triples(nodes) -> Iterator[tuple]:
    """All (X, Y, Z) pairwise disjoint with Y, Z non-empty and X possibly empty."""
    nodes = list(nodes)
    for x in subsets(nodes, 0):
        rest = [v for v in nodes if v not in x]
        for y in subsets(rest, 1):
            rest2 = [v for v in rest if v not in y]
            for z in subsets(rest2, 1):
                yield x, y, z


# ----------------------------------------------------------------------------------------
# reference operations on the triple
# ----------------------------------------------------------------------------------------


def parents(g: G, v) -> set:
    return {a for a, b in g.di if b == v}


def children(g: G, v) -> set:
    return {b for a, b in g.di if a == v}


def siblings(g: G, v) -> set:
    return {a if b == v else b for a, b in g.bi if v in (a, b)}


def ancestors_inc(g: G, s: Iterable) -> frozenset:
    out = set(s)
    while True:
        new = {a for a, b in g.di if b in out} - out
        if not new:
            return frozenset(out)
        out |= new


def descendants_inc(g: G, s: Iterable) -> frozenset:
    out = set(s)
    while True:
        new = {b for a, b in g.di if a in out} - out
        if not new:
            return frozenset(out)
        out |= new


def districts(g: G) -> frozenset:
    comp = {v: {v} for v in g.nodes}
    for a, b in g.bi:
        if comp[a] is not comp[b]:
            merged = comp[a] | comp[b]
            for x in merged:
                comp[x] = merged
    return frozenset(frozenset(c) for c in comp.values())


def district_of(g: G, v) -> frozenset:
    for d in districts(g):
        if v in d:
            return d
    raise KeyError(v)


def norm_bi(edges) -> tuple:
    return tuple(sorted({tuple(sorted(e)) for e in edges}))


def subgraph(g: G, s: Iterable) -> G:
    s = set(s)
    return G(
        tuple(v for v in g.nodes if v in s),
        tuple(e for e in g.di if e[0] in s and e[1] in s),
        tuple(e for e in g.bi if e[0] in s and e[1] in s),
    )


def remove_nodes(g: G, s: Iterable) -> G:
    s = set(s)
    return subgraph(g, [v for v in g.nodes if v not in s])


def remove_in_edges(g: G, s: Iterable) -> G:
    s = set(s)
    return G(
        g.nodes,
        tuple(e for e in g.di if e[1] not in s),
        tuple(e for e in g.bi if e[0] not in s and e[1] not in s),
    )


def remove_out_edges(g: G, s: Iterable) -> G:
    s = set(s)
    return G(g.nodes, tuple(e for e in g.di if e[0] not in s), g.bi)


def topological_orders(g: G) -> Iterator[tuple]:
    """All linear extensions of the directed part."""
    nodes = list(g.nodes)
    preds = {v: parents(g, v) for v in nodes}

    def rec(prefix, remaining):
        if not remaining:
            yield tuple(prefix)
            return
        placed = set(prefix)
        for v in remaining:
            if preds[v] <= placed:
                yield from rec(prefix + [v], [w for w in remaining if w != v])

    yield from rec([], nodes)


def a_topological_order(g: G) -> tuple:
    return next(topological_orders(g))


def is_topological(g: G, order) -> bool:
    pos = {v: i for i, v in enumerate(order)}
    return set(order) == set(g.nodes) and len(order) == len(g.nodes) and all(pos[a] < pos[b] for a, b in g.di)


def latent_expand(g: G):
    """DAG with one explicit latent parent per bidirected edge: returns (nodes, di, latents)."""
    lat = tuple(f"_U_{a}_{b}" for a, b in g.bi)
    di = list(g.di)
    for name, (a, b) in zip(lat, g.bi):
        di.append((name, a))
        di.append((name, b))
    return tuple(g.nodes) + lat, tuple(di), lat


# ---------------------------------------------------------------- separation oracles


def _dag_adj(nodes, di):
    pa = {v: set() for v in nodes}
    ch = {v: set() for v in nodes}
    for a, b in di:
        pa[b].add(a)
        ch[a].add(b)
    return pa, ch


def dsep_paths(nodes, di, a, b, cond) -> bool:
    """Path definition of d-separation in a DAG: True iff no active simple path a..b given cond."""
    cond = set(cond)
    pa, ch = _dag_adj(nodes, di)
    anc_c = set(cond)
    while True:
        new = {p for v in anc_c for p in pa[v]} - anc_c
        if not new:
            break
        anc_c |= new

    # DFS over simple paths; state carries how we arrived at the current node.
    def active_from(path, arrived_by_arrow_into):
        cur = path[-1]
        if cur == b:
            return True
        for nxt in pa[cur] | ch[cur]:
            if nxt in path:
                continue
            # both orientations can exist only with a 2-cycle; DAG so exactly one.
            leaving_into_cur = nxt in pa[cur]  # edge nxt -> cur : at cur the next edge has an arrowhead into cur
            if len(path) > 1:
                collider = arrived_by_arrow_into and leaving_into_cur
                if collider:
                    if cur not in anc_c:
                        continue
                else:
                    if cur in cond:
                        continue
            # how do we arrive at nxt: arrowhead into nxt iff edge is cur -> nxt
            if active_from(path + [nxt], nxt in ch[cur]):
                return True
        return False

    return not active_from([a], False)


def dsep_bayes_ball(nodes, di, a, b, cond) -> bool:
    """Reachability (Bayes-ball) formulation of d-separation in a DAG."""
    cond = set(cond)
    pa, ch = _dag_adj(nodes, di)
    anc_c = set(cond)
    while True:
        new = {p for v in anc_c for p in pa[v]} - anc_c
        if not new:
            break
        anc_c |= new
    # states: (node, direction) direction 'up' = arrived from a child, 'down' = arrived from a parent
    seen = set()
    stack = [(a, "up")]
    while stack:
        v, d = stack.pop()
        if (v, d) in seen:
            continue
        seen.add((v, d))
        if v == b:
            return False
        if d == "up" and v not in cond:
            stack.extend((p, "up") for p in pa[v])
            stack.extend((c, "down") for c in ch[v])
        elif d == "down":
            if v not in cond:
                stack.extend((c, "down") for c in ch[v])
            if v in anc_c:
                stack.extend((p, "up") for p in pa[v])
    return True


def msep(g: G, a, b, cond) -> bool:
    """True m-separation in the ADMG = d-separation in the latent-expanded DAG (path definition)."""
    nodes, di, _ = latent_expand(g)
    return dsep_paths(nodes, di, a, b, cond)


def msep_bb(g: G, a, b, cond) -> bool:
    nodes, di, _ = latent_expand(g)
    return dsep_bayes_ball(nodes, di, a, b, cond)


# ---------------------------------------------------------------- identifiability oracles


def identify_cfactor_ok(g: G, c: frozenset, t: frozenset) -> bool:
    """Tian-Pearl IDENTIFY fix-point: is Q[c] computable from Q[t] (c subset t, both single districts)?"""
    c, t = frozenset(c), frozenset(t)
    while True:
        a = ancestors_inc(subgraph(g, t), c)
        if a == c:
            return True
        if a == t:
            return False
        t = district_of(subgraph(g, a), next(iter(c)))


def identifiable_tp(g: G, x, y) -> bool:
    """P(y | do x) identifiable iff every district of G[D], D = An(Y) in G[V minus X], passes IDENTIFY."""
    x, y = set(x), set(y)
    gx = remove_nodes(g, x)
    d = ancestors_inc(gx, y)
    gd = subgraph(g, d)
    for dj in districts(gd):
        sj = district_of(g, next(iter(dj)))
        if not identify_cfactor_ok(g, dj, sj):
            return False
    return True


def _is_cforest(g: G, f: frozenset, roots: frozenset) -> bool:
    """f is an R-rooted C-forest in g: some edge subgraph where all nodes have at most one child,
    bidirected-connected, root set exactly R.  Equivalent existence test: G[f] is bidirected-
    connected and every node of f is an ancestor (within G[f]) of R, and R = nodes without
    children in the chosen forest.  We test existence via: bidirected connected + An_{G[f]}(R) = f
    + every r in R is needed (R subset f)."""
    sub = subgraph(g, f)
    if len(districts(sub)) != 1:
        return False
    return ancestors_inc(sub, roots) == f and roots <= f


def identifiable_hedge(g: G, x, y) -> bool:
    """Brute-force hedge search from the definition (Shpitser & Pearl 2006, Thm 4).

    Not identifiable iff there are F' subset F, R-rooted C-forests (as node sets with an
    edge-subgraph witness), F cap X != empty, F' cap X = empty, R subset An(Y) in G_{bar X}.
    For node sets it suffices (Thm 4 proof) to find F' subset F both bidirected-connected in the
    induced subgraphs with every node an ancestor of R inside the respective induced subgraph.
    """
    x, y = frozenset(x), frozenset(y)
    an_y = ancestors_inc(remove_in_edges(g, x), y)
    nodes = list(g.nodes)
    for fp in subsets(nodes, 1):
        fp = frozenset(fp)
        if fp & x:
            continue
        subp = subgraph(g, fp)
        if len(districts(subp)) != 1:
            continue
        others = [v for v in nodes if v not in fp]
        for r in subsets(sorted(fp), 1):
            r = frozenset(r)
            if not r <= an_y or ancestors_inc(subp, r) != fp:
                continue
            for extra in subsets(others, 1):
                f = fp | frozenset(extra)
                if not (f & x):
                    continue
                subf = subgraph(g, f)
                if len(districts(subf)) != 1:
                    continue
                if ancestors_inc(subf, r) != f:
                    continue
                return False
    return True


# ---------------------------------------------------------------- latent projection (C16)


def latent_projection(nodes, di, latent) -> G:
    """Definition-based latent projection of a DAG onto its observed nodes."""
    latent = set(latent)
    obs = tuple(v for v in nodes if v not in latent)
    pa, ch = _dag_adj(nodes, di)

    def reach_via_latents(start):
        """observed nodes reachable from start by directed paths whose interior nodes are latent."""
        out, seen, stack = set(), set(), [start]
        while stack:
            v = stack.pop()
            for c in ch[v]:
                if c in latent:
                    if c not in seen:
                        seen.add(c)
                        stack.append(c)
                else:
                    out.add(c)
        return out

    new_di = set()
    for v in obs:
        for w in reach_via_latents(v):
            if w != v:
                new_di.add((v, w))
    new_bi = set()
    for u in latent:
        r = sorted(reach_via_latents(u))
        for a, b in itt.combinations(r, 2):
            new_bi.add((a, b))
    return G(obs, tuple(sorted(new_di)), tuple(sorted(new_bi)))


# ---------------------------------------------------------------- irreducible ID queries


def irreducible_queries(g: G) -> Iterator[tuple]:
    """(X, Y) on which the first step of the ID recursion is none of lines 2, 3, 4.

    An(Y) in G is all of V (line 2 would otherwise restrict to a smaller graph), every node outside X is
    an ancestor of Y once the edges into X are cut (line 3 would otherwise enlarge X to another enumerated
    query on the same graph), and G minus X is a single district (line 4 would otherwise split into
    sub-queries (V minus S, S) that are themselves enumerated).  Every query reduces to irreducible ones on
    the same or a smaller graph by those three lines, whose own formulas are exercised exhaustively at n<=4.
    """
    nodes = g.nodes
    for x, y in disjoint_pairs(nodes):
        if len(ancestors_inc(g, y)) != len(nodes):
            continue
        gx = remove_in_edges(g, x)
        if set(ancestors_inc(gx, y)) | set(x) != set(nodes):
            continue
        if len(districts(remove_nodes(g, x))) != 1:
            continue
        yield x, y


def line4_queries(g: G) -> Iterator[tuple]:
    """(X, Y) whose first ID step is line 4 with at least two districts of G minus X that are not districts of G.

    An(Y) = V (Y contains every sink), line 3 adds nothing, and G minus X splits into >= 2 districts of which at least
    two are proper parts of districts of G: the estimand is then a product of >= 2 sub-results that each go through
    line 7 (or fail on a hedge), the shape in which sorting keys of several nested sums meet in one product.
    """
    nodes = g.nodes
    ds = set(districts(g))
    has_child = {a for a, _ in g.di}
    sinks = {v for v in nodes if v not in has_child}
    for x in subsets(nodes, 1):
        if set(x) & sinks or len(x) == len(nodes):
            continue
        if sum(1 for s in districts(remove_nodes(g, x)) if s not in ds) < 2:
            continue
        gx = remove_in_edges(g, x)
        rest = [v for v in nodes if v not in x]
        for y in subsets(rest, 1):
            if not sinks <= set(y):
                continue
            if set(ancestors_inc(gx, y)) | set(x) != set(nodes):
                continue
            yield x, y
