"""C20 Sigma-separation agrees with d-separation on acyclic graphs.

Agreement clause: every ADMG of the universe, every ordered pair (a, b), every conditioning set C:
are_sigma_separated == path-definition d-separation oracle on the latent-expanded DAG.
General clause: every directed mixed graph with cycles in the universe: verdict symmetric in (a, b);
two nodes joined by an edge of any kind are never reported separated.
"""

from __future__ import annotations

from functools import lru_cache
import itertools as itt

from ..builder import NAMES4, build_ops, replay_sequence, run_sequences
from ..graphs import G, enum_D, enum_L, enum_O, is_acyclic, msep, subsets
from ..runner import Res
from ..y0util import V, snapshot, to_y0

TITLE = "Sigma-separation agrees with d-separation on acyclic graphs"


@lru_cache(maxsize=None)
def _universe(tier):
    if tier == "quick":
        acyc = [g for n in (2, 3) for g in enum_L(n)] + list(enum_O(4)) + list(enum_O(5, max_edges=4))
        cyc = [g for g in enum_D(2)] + [g for g in enum_D(3)] + [g for g in enum_D(4, max_edges=4)]
    else:
        acyc = [g for n in (2, 3, 4) for g in enum_L(n)] + list(enum_O(5, max_edges=5))
        cyc = [g for g in enum_D(2)] + [g for g in enum_D(3)] + [g for g in enum_D(4, max_edges=5)]
    cyc = [g for g in cyc if not is_acyclic(g.nodes, g.di)]
    return [("acyclic", g) for g in acyc] + [("cyclic", g) for g in cyc]


def shards(tier):
    n = len(_universe(tier))
    size = 64 if tier == "quick" else 128
    # builder phase: one live graph object grown edge by edge; after every insertion every query, then a copy of the graph is
    # extended by one edge and the original (and the copy) are asked again
    return [(i, min(i + size, n)) for i in range(0, n, size)] + [("build", i) for i in range(len(build_ops(NAMES4)))]


def describe(tier):
    return {
        "bound": (
            "agreement: L(2), L(3) all labelled ADMGs + O(4) + O(5, <=4 edges); general: all cyclic directed mixed graphs "
            "on 2 and 3 nodes + four-node ones with <=4 edges"
            if tier == "quick"
            else "agreement: L(2..4) all labelled ADMGs + O(5, <=5 edges); general: all cyclic directed mixed graphs on 2, 3 "
            "nodes + four-node ones with <=5 edges"
        )
        + "; every ordered pair (a,b), every conditioning set C (graphs up to four nodes: given as list, frozenset and one-shot generator)"
        "; builder sequences: every sequence of 3 edge insertions over 4 names on one live graph object, every query after each "
        "insertion, then for every non-adjacent pair a copy of the graph gets one more edge and both the original and the copy are "
        "asked about that pair under every conditioning set",
        "rule": "state = (graph, a, b, C); transition = one are_sigma_separated call compared with the path-definition "
        "d-separation oracle (acyclic) / with the reversed-argument call and the adjacency rule (all graphs)",
        "assumptions": ["oracle: path definition of d-separation on the latent-expanded DAG (mc.graphs.msep)"],
    }


def explore_graph(res: Res, kind, g: G, only=None):
    from y0.algorithm.separation.sigma_separation import are_sigma_separated

    y = to_y0(g)
    before = snapshot(y)
    adj = {frozenset(e) for e in g.di} | {frozenset(e) for e in g.bi}
    verdict = {}
    for a, b in itt.permutations(g.nodes, 2):
        rest = [v for v in g.nodes if v not in (a, b)]
        for c in subsets(rest):
            case = {"graph": g.to_json(), "kind": kind, "a": a, "b": b, "C": list(c)}
            if only and (only["a"], only["b"], only["C"]) not in ((a, b, list(c)), (b, a, list(c))):
                continue
            res.states += 1
            res.transitions += 1
            try:
                got = are_sigma_separated(y, V(a), V(b), conditions=[V(x) for x in c])
            except Exception as e:  # noqa
                res.violation("exception", case, f"raised {type(e).__name__}: {e}")
                continue
            if not isinstance(got, bool):
                res.violation("exception", case, f"returned {got!r}, not a bool")
            verdict[(a, b, c)] = bool(got)
            if len(g.nodes) <= 4 and c:
                # the conditioning set in other legal presentations (any Iterable[Variable]): same verdict
                for form, conds in (("frozenset", frozenset(V(x) for x in c)), ("generator", (V(x) for x in reversed(c)))):
                    res.transitions += 1
                    try:
                        alt = are_sigma_separated(y, V(a), V(b), conditions=conds)
                    except Exception as e:  # noqa
                        res.violation("argument_form", dict(case, form=form), f"raised {type(e).__name__}: {e}")
                        continue
                    if bool(alt) != bool(got):
                        res.violation("argument_form", dict(case, form=form), f"verdict {alt} with the conditions given as a {form}, {got} as a list")
            if frozenset((a, b)) in adj and got:
                res.violation("adjacent", case, "two nodes joined by an edge are reported sigma-separated")
            if kind == "acyclic":
                want = msep(g, a, b, c)
                if bool(got) != want:
                    res.outcomes["wrong"] += 1
                    res.violation("agreement", case, f"sigma-separated={got}, d-separated (oracle)={want}")
                else:
                    res.outcomes["separated" if want else "connected"] += 1
            else:
                res.outcomes["cyclic_separated" if got else "cyclic_connected"] += 1
            if len(res.samples) < 3 and c and kind == "cyclic":
                res.sample(dict(case, verdict=bool(got)))
    for (a, b, c), v in verdict.items():
        if a < b and (b, a, c) in verdict and verdict[(b, a, c)] != v:
            res.violation(
                "symmetry",
                {"graph": g.to_json(), "kind": kind, "a": a, "b": b, "C": list(c)},
                f"verdict({a},{b})={v} but verdict({b},{a})={verdict[(b, a, c)]}",
            )
    if snapshot(y) != before:
        res.violation("side_effect", {"graph": g.to_json()}, "the caller's graph was modified")


def _ask(res, y, g: G, a, b, case, clause):
    from y0.algorithm.separation.sigma_separation import are_sigma_separated

    rest = [v for v in g.nodes if v not in (a, b)]
    for c in subsets(rest):
        res.transitions += 1
        cs = dict(case, a=a, b=b, C=list(c))
        try:
            got = are_sigma_separated(y, V(a), V(b), conditions=[V(x) for x in c])
        except Exception as e:  # noqa
            res.violation("exception", cs, f"raised {type(e).__name__}: {e}")
            continue
        want = msep(g, a, b, c)
        if bool(got) != want:
            res.violation(clause, cs, f"sigma-separated={got}, d-separated (oracle)={want}")
            return False
    return True


def _builder_judge(res):
    def judge(y, g, hist):
        res.states += 1
        base = {"graph": g.to_json(), "kind": "acyclic", "builder_ops": hist}
        for a, b in itt.combinations(g.nodes, 2):
            if not _ask(res, y, g, a, b, base, "agreement"):
                return False
        adj = {frozenset(e) for e in g.di} | {frozenset(e) for e in g.bi}
        for a, b in itt.permutations(g.nodes, 2):
            if frozenset((a, b)) in adj:
                continue
            for kind in ("d", "b"):
                if kind == "b" and a > b:
                    continue
                if kind == "d" and not is_acyclic(g.nodes, list(g.di) + [(a, b)]):
                    continue
                h = y.copy()
                if kind == "d":
                    h.add_directed_edge(V(a), V(b))
                    gh = G(g.nodes, tuple(g.di) + ((a, b),), g.bi)
                else:
                    h.add_undirected_edge(V(a), V(b))
                    gh = G(g.nodes, g.di, tuple(g.bi) + ((a, b),))
                cs = dict(base, copy_edit=[kind, a, b])
                # the original is unchanged by an edit of its copy; the copy answers for its own edges
                if not _ask(res, y, g, a, b, cs, "agreement_after_copy_edit"):
                    return False
                if not _ask(res, h, gh, a, b, dict(cs, asked="copy"), "agreement_after_copy_edit"):
                    return False
        res.outcomes["builder_step_ok"] += 1
        return True

    return judge


def work(shard, tier, seed):
    if shard[0] == "build":
        res = Res()
        run_sequences(shard[1], 3, _builder_judge(res), names=NAMES4)
        return res
    lo, hi = shard
    res = Res()
    for kind, g in _universe(tier)[lo:hi]:
        explore_graph(res, kind, g)
    return res


def replay(case, clause=None):
    g = G.from_json(case["graph"])
    res = Res()
    if "builder_ops" in case:
        replay_sequence(case["builder_ops"], _builder_judge(res))
        return [v for v in res.violations if v["input"].get("builder_ops") == case["builder_ops"]][:1]
    explore_graph(res, case.get("kind", "acyclic"), g, only=case)
    return [v for v in res.violations if clause is None or v["clause"] == clause]
