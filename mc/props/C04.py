"""C04 d-separation verdicts equal true m-separation in the mixed graph.

State space: every graph of the universe x every ordered pair (a, b) of distinct nodes x every
conditioning set C inside V minus {a,b}, under several insertion orders and hash seeds.
Oracle: path definition of d-separation on the DAG obtained by replacing each bidirected edge
with an explicit latent parent (mc.graphs.msep).  Also: (a,b) and (b,a) agree, judgement record
canonical, condition order irrelevant, caller's graph untouched.
"""

from __future__ import annotations

from functools import lru_cache

import itertools as itt
import os

from ..graphs import G, enum_L, enum_O, msep, subsets
from ..runner import Res
from ..y0util import V, snapshot, to_y0

TITLE = "d-separation verdicts equal true m-separation in the mixed graph"
HASH_SEEDS = {"quick": [0, 1], "thorough": [0, 1, 2]}


@lru_cache(maxsize=None)
def _universe(tier):
    uni = [g for n in (2, 3, 4) for g in enum_L(n)]
    if tier == "thorough":
        uni += [g for g in enum_O(5, max_edges=5)]
    return uni


BUILD_NAMES = ("A", "B", "C", "D")


def build_ops():
    ops = [("d", u, v) for u in BUILD_NAMES for v in BUILD_NAMES if u != v]
    ops += [("b", u, v) for u, v in itt.combinations(BUILD_NAMES, 2)]
    return ops


def shards(tier):
    n = len(_universe(tier))
    size = 128 if tier == "quick" else 256
    out = [(i, min(i + size, n)) for i in range(0, n, size)]
    # builder phase: the graph is grown edge by edge on ONE live object and queried after every step
    out += [("build", i) for i in range(len(build_ops()))]
    # the same over three names with count-preserving edge moves as steps (constant-size in-place edits; seeded C15-g)
    out += [("buildmv", i) for i in range(9)]
    return out


def _move_judge(res):
    from y0.algorithm.conditional_independencies import are_d_separated

    def judge(y, g, hist):
        for a, b in itt.combinations(g.nodes, 2):
            rest = [v for v in g.nodes if v not in (a, b)]
            for c in subsets(rest):
                res.transitions += 1
                case = {"builder_ops": hist, "moves": True, "a": a, "b": b, "C": list(c)}
                try:
                    got = bool(are_d_separated(y, V(a), V(b), conditions=[V(x) for x in c]))
                except Exception as e:  # noqa
                    res.violation("exception", case, f"raised {type(e).__name__}: {e}")
                    return False
                want = msep(g, a, b, c)
                if got != want:
                    res.violation("verdict", case, f"after editing one graph object by {hist}: separated={got}, oracle={want}")
                    return False
        res.outcomes["builder_step_ok"] += 1
        return True

    return judge


def explore_builder(res: Res, first, tier):
    """Every sequence of 3 edge insertions (directed or bidirected, over 4 names) starting with ``first``; after every
    insertion every (a, b, C) is asked on the live object and compared with the oracle on the reference triple."""
    from y0.algorithm.conditional_independencies import are_d_separated
    from y0.graph import NxMixedGraph

    from ..graphs import is_acyclic

    ops = build_ops()
    depth = 3
    for tail in itt.product(range(len(ops)), repeat=depth - 1):
        seq = (first,) + tail
        y = NxMixedGraph()
        nodes, di, bi = [], [], []
        hist = []
        res.states += 1
        for k in seq:
            kind, u, v = ops[k]
            hist.append([kind, u, v])
            for n in (u, v):
                if n not in nodes:
                    nodes.append(n)
            if kind == "d":
                if (u, v) in di:
                    break
                di.append((u, v))
                if not is_acyclic(nodes, di):
                    break
                y.add_directed_edge(V(u), V(v))
            else:
                if (u, v) in bi:
                    break
                bi.append((u, v))
                y.add_undirected_edge(V(u), V(v))
            g = G(tuple(nodes), tuple(di), tuple(bi))
            bad = False
            for a, b in itt.permutations(nodes, 2):
                rest = [x for x in nodes if x not in (a, b)]
                for c in subsets(rest):
                    res.transitions += 1
                    try:
                        got = bool(are_d_separated(y, V(a), V(b), conditions=[V(x) for x in c]))
                    except Exception as e:  # noqa
                        got = f"{type(e).__name__}: {e}"
                    want = msep(g, a, b, c)
                    if got != want:
                        res.violation(
                            "verdict_after_mutation",
                            {"builder_ops": list(hist), "a": a, "b": b, "C": list(c)},
                            f"after growing one graph object by {hist}: are_d_separated says {got}, oracle says {want}",
                        )
                        res.outcomes["wrong_after_mutation"] += 1
                        bad = True
                        break
                if bad:
                    break
            if bad:
                break
            res.outcomes["builder_step_ok"] += 1


def describe(tier):
    return {
        "bound": "graphs: all labelled ADMGs L(2), L(3), L(4) (34 958 graphs)"
        + (" + O(5, <=5 edges) ordered five-node ADMGs" if tier == "thorough" else "")
        + "; every ordered pair (a,b), every conditioning set C; insertion orders: all node permutations x reversed "
        "edge lists for n<=3, "
        + ("all 24 node permutations for n=4 (hash seed 0), " if tier == "thorough" else "")
        + "canonical (hash seed 0) and reversed nodes+edges (other seeds"
        + ("" if tier == "thorough" else ", name-ordered sub-family O(4) only")
        + ") for n>=4; PYTHONHASHSEED in "
        + str(HASH_SEEDS[tier])
        + "; plus every sequence of 3 steps over 3 names where a step is an edge insertion or a count-preserving edge move, all queries after each step"
        + "; plus every sequence of 3 edge insertions (directed or bidirected, 4 names) on one live graph object with all "
        "queries after every insertion",
        "rule": "state = (graph, insertion order, a, b, C); transition = one are_d_separated call compared with the "
        "path-definition oracle on the latent-expanded DAG",
        "assumptions": [
            "oracle: simple-path definition of d-separation (mc.graphs.dsep_paths), cross-checked against Bayes-ball "
            "reachability by mc.selftest",
        ],
    }


def _orders(g: G, tier, hs):
    n = len(g.nodes)
    if n <= 3:
        for order in itt.permutations(g.nodes):
            yield order, False
            if g.di or g.bi:
                yield order, True
    elif n == 4 and tier == "thorough" and hs == 0:
        for order in itt.permutations(g.nodes):
            yield order, False
        yield tuple(reversed(g.nodes)), True
    elif hs == 0:
        yield g.nodes, False
    elif n == 5:
        return  # five-node graphs are explored under hash seed 0 only
    elif tier == "thorough" or all(u < v for u, v in g.di):
        # quick: other hash seeds revisit only the name-ordered sub-family O(4), with everything reversed
        yield tuple(reversed(g.nodes)), True


def check_graph(res: Res, g: G, order, rev, first):
    from y0.algorithm.conditional_independencies import are_d_separated

    y = to_y0(g, node_order=order, reverse_edges=rev)
    before = snapshot(y)
    base = {"graph": g.to_json(), "order": list(order), "rev": rev}
    nodes = g.nodes
    verdicts = {}
    for a, b in itt.permutations(nodes, 2):
        rest = [v for v in nodes if v not in (a, b)]
        for c in subsets(rest):
            res.transitions += 1
            case = dict(base, a=a, b=b, C=list(c))
            try:
                j = are_d_separated(y, V(a), V(b), conditions=[V(x) for x in c])
            except Exception as e:  # noqa
                res.violation("exception", case, f"raised {type(e).__name__}: {e}")
                continue
            want = msep(g, a, b, c)
            got = bool(j)
            verdicts[(a, b, c)] = got
            if got != want:
                res.outcomes["wrong"] += 1
                res.violation(
                    "verdict", case, f"are_d_separated says separated={got}, path-definition oracle says {want}"
                )
            else:
                res.outcomes["separated" if want else "connected"] += 1
            lo, hi = sorted((a, b))
            if (
                str(j.left) != lo
                or str(j.right) != hi
                or tuple(str(x) for x in j.conditions) != tuple(sorted(c))
                or not j.is_canonical
                or j.separated is not got
            ):
                res.violation("canonical", case, f"judgement record not canonical: {j!r}")
            if len(c) >= 2 and first:
                res.transitions += 1
                j2 = are_d_separated(y, V(a), V(b), conditions=tuple(V(x) for x in reversed(c)))
                if j2 != j:
                    res.violation("condition_order", case, f"{j2!r} != {j!r}")
            if c and first and len(nodes) <= 3:
                # other legal presentations of the conditioning set (any Iterable[Variable]): one-shot generator, frozenset
                for form, conds in (("generator", (V(x) for x in c)), ("frozenset", frozenset(V(x) for x in c))):
                    res.transitions += 1
                    try:
                        j3 = are_d_separated(y, V(a), V(b), conditions=conds)
                    except Exception as e:  # noqa
                        res.violation("argument_form", dict(case, form=form), f"raised {type(e).__name__}: {e}")
                        continue
                    if j3 != j:
                        res.violation("argument_form", dict(case, form=form), f"{j3!r} with the conditions given as a {form}, {j!r} as a list")
    for (a, b, c), got in verdicts.items():
        if a < b and verdicts.get((b, a, c)) is not None and verdicts[(b, a, c)] != got:
            res.violation("symmetry", dict(base, a=a, b=b, C=list(c)), "verdict(a,b) != verdict(b,a)")
    if snapshot(y) != before:
        res.violation("receiver_mutated", base, "are_d_separated modified the caller's graph")
    return verdicts


def work(shard, tier, seed):
    hs = int(os.environ.get("PYTHONHASHSEED", "0") or 0)
    res = Res()
    if shard[0] == "build":
        if hs == 0:
            explore_builder(res, shard[1], tier)
        return res
    if shard[0] == "buildmv":
        if hs == 0:
            from ..builder import NAMES3, run_sequences

            res.states += run_sequences(shard[1], 3, _move_judge(res), names=NAMES3, moves=True)
        return res
    lo, hi = shard
    for g in _universe(tier)[lo:hi]:
        ref = None
        for k, (order, rev) in enumerate(_orders(g, tier, hs)):
            res.states += 1
            v = check_graph(res, g, order, rev, k == 0)
            if k == 0:
                ref = v
                if len(res.samples) < 2 and g.bi and g.di:
                    res.sample({"graph": g.to_json(), "order": list(order), "rev": rev, "verdicts": len(v)})
            elif v != ref:
                res.violation(
                    "insertion_order",
                    {"graph": g.to_json(), "order": list(order), "rev": rev},
                    "verdicts differ from those of the canonical insertion order",
                )
    return res


def replay(case, clause=None):
    if case.get("moves"):
        from ..builder import replay_sequence

        replay_sequence(case["builder_ops"], _move_judge(res))
        return [v for v in res.violations if v["input"].get("builder_ops") == case["builder_ops"]][:1]
    if "builder_ops" in case:
        res = Res()
        ops = build_ops()
        idx = [ops.index(tuple(o)) for o in case["builder_ops"]]
        explore_builder(res, idx[0], "quick")
        return [v for v in res.violations if v["input"]["builder_ops"] == case["builder_ops"]][:1]
    g = G.from_json(case["graph"])
    res = Res()
    check_graph(res, g, tuple(case.get("order", g.nodes)), case.get("rev", False), True)
    return [
        v
        for v in res.violations
        if (clause is None or v["clause"] == clause)
        and all(v["input"].get(k) == case.get(k) for k in ("a", "b", "C") if k in case)
    ]
