"""C11 Canonical form is a true normal form.

State space: every expression reachable by the DSL exploration plan (mc.exprs).
Oracle: canon(canon(e, o), o) == canon(e, o) as objects and as text; for every presentation variant
pi(e) (factor order in a product, nesting of products, order of children / parents in a distribution;
one node changed at a time, plus everything reversed) canon(pi(e), o) == canon(e, o); the ordered list
of canonical texts is identical under every PYTHONHASHSEED explored.
"""

from __future__ import annotations

import hashlib
import itertools as itt

from y0.dsl import Distribution, Fraction, PopulationProbability, Probability, Product, Sum

from ..exprs import ORDERINGS, PLANS, Explorer, State, case_of, level, plan_shards, rebuild, struct_key
from ..runner import Res

TITLE = "Canonical form is a true normal form"
HASH_SEEDS = {"quick": [0, 1], "thorough": [0, 1, 2, 3]}


def shards(tier):
    return plan_shards(tier, 8 if tier == "quick" else 64) + [("construction", 0, 0, 0)]


def colliding_intervention_sets():
    """Equal frozensets of interventions with different iteration orders (found for the current hash seed).

    Two members of a small frozenset that fall into the same slot of the hash table are iterated in insertion order, so
    frozenset([i, j]) and frozenset([j, i]) are equal objects that iterate differently.  Yields (set_forward, set_backward).
    """
    from y0.dsl import Intervention

    pool = ["B", "C", "D", "E", "F", "G", "M", "R", "S", "T", "U", "W", "X", "Y", "Z"] + [f"X{i}" for i in range(1, 7)] + [f"Z{i}" for i in range(1, 7)]
    found = 0
    for n1, n2 in itt.combinations(pool, 2):
        for s1, s2 in ((False, True), (True, False), (False, False)):
            i, j = Intervention(name=n1, star=s1), Intervention(name=n2, star=s2)
            fwd, bwd = frozenset([i, j]), frozenset([j, i])
            if list(fwd) != list(bwd):
                yield (n1, s1, n2, s2), fwd, bwd
                found += 1
                if found >= 12:
                    return


def check_construction_order(res: Res):
    """The canonical form, its text and the sort keys must not depend on the iteration order of intervention sets."""
    from y0.dsl import CounterfactualVariable, P
    from y0.mutate import canonicalize

    sets = list(colliding_intervention_sets())
    res.extra["colliding_intervention_sets_found"] += len(sets)
    for (n1, s1, n2, s2), fwd, bwd in sets:
        # a second factor whose sorted reading 'crosses' the first one's
        other = frozenset(type(next(iter(fwd)))(name=i.name, star=not i.star) for i in fwd)
        for f1, f2 in ((fwd, other), (other, fwd)):
            outs = []
            for a_set in (fwd, bwd) if f1 is fwd else (other,):
                for b_set in (fwd, bwd) if f2 is fwd else (other,):
                    res.transitions += 1
                    va = CounterfactualVariable(name="A", star=None, interventions=a_set)
                    vb = CounterfactualVariable(name="A", star=None, interventions=b_set)
                    e = P(va) * P(vb)
                    c = canonicalize(e)
                    outs.append((str(c), struct_key(c), str(e)))
            res.states += 1
            if len({o[:2] for o in outs}) != 1 or len({o[2] for o in outs}) != 1:
                res.violation(
                    "construction_order",
                    {"interventions": [n1, "+" if s1 else "-", n2, "+" if s2 else "-"]},
                    f"the same product prints / canonicalises differently depending on the iteration order of an intervention set: {sorted(set(outs))}",
                )
                res.outcomes["construction_order_dependent"] += 1
            else:
                res.outcomes["construction_order_independent"] += 1


def describe(tier):
    parts = []
    for alpha, depth in PLANS[tier]:
        al, sts = level(alpha, depth)
        parts.append(f"{len(al)}-atom alphabet, all expressions up to {depth + 1} operations deep")
    return {
        "bound": "variables A, B, C; "
        + "; ".join(parts)
        + "; orderings: default, (A,B,C), (C,B,A); presentation variants: every permutation of the factors of a product (<=4 "
        "factors, else rotations and reversal), re-nesting of products, every permutation of children and of parents of a "
        "distribution, applied at every node, plus everything reversed; PYTHONHASHSEED in "
        + str(HASH_SEEDS[tier])
        + (" (seeds other than 0 revisit every third shard)" if tier == "quick" else ""),
        "rule": "state = expression (dedup by exact structure); transitions = canonicalize on the state, on its canonical "
        "form and on each presentation variant, compared by object equality and text",
        "assumptions": ["object equality is dataclass equality of y0 expressions; variants are built with the raw constructors"],
    }


def _perms(xs):
    xs = list(xs)
    if len(xs) <= 4:
        return [p for p in itt.permutations(xs) if list(p) != xs]
    out = [tuple(xs[i:] + xs[:i]) for i in range(1, len(xs))] + [tuple(reversed(xs))]
    return out


def _new_prob(p, children, parents):
    return p._new(Distribution(children=tuple(children), parents=tuple(parents)))


def local_variants(e):
    """Presentation variants of the root node of e only."""
    if isinstance(e, Probability):
        for ch in _perms(e.children):
            yield _new_prob(e, ch, e.parents)
        for pa in _perms(e.parents):
            yield _new_prob(e, e.children, pa)
    elif isinstance(e, Product):
        for fs in _perms(e.expressions):
            yield Product(tuple(fs))
        fs = e.expressions
        if len(fs) >= 3:
            yield Product((fs[0], Product(tuple(fs[1:]))))
            yield Product((Product(tuple(fs[:2])),) + tuple(fs[2:]))
            yield Product((Product(tuple(fs[:-1])), fs[-1]))


def variants(e):
    """Every expression that differs from e by the presentation of exactly one node."""
    yield from local_variants(e)
    if isinstance(e, Product):
        for i, x in enumerate(e.expressions):
            for v in variants(x):
                yield Product(e.expressions[:i] + (v,) + e.expressions[i + 1 :])
    elif isinstance(e, Fraction):
        for v in variants(e.numerator):
            yield Fraction(v, e.denominator)
        for v in variants(e.denominator):
            yield Fraction(e.numerator, v)
    elif isinstance(e, Sum):
        for v in variants(e.expression):
            yield Sum(v, e.ranges)


def reversed_all(e):
    if isinstance(e, Probability):
        return _new_prob(e, tuple(reversed(e.children)), tuple(reversed(e.parents)))
    if isinstance(e, Product):
        return Product(tuple(reversed([reversed_all(x) for x in e.expressions])))
    if isinstance(e, Fraction):
        return Fraction(reversed_all(e.numerator), reversed_all(e.denominator))
    if isinstance(e, Sum):
        return Sum(reversed_all(e.expression), e.ranges)
    return e


def on_state(ex: Explorer, res: Res, st: State):
    from y0.mutate import canonicalize

    case = case_of(st, {"alpha": ex.alpha})
    ok = True
    for o in (None, ORDERINGS[0], ORDERINGS[-1]):
        res.transitions += 2
        try:
            c1 = canonicalize(st.expr, o)
        except Exception as e:  # noqa  (meaning / totality of canonicalize is C10's clause)
            res.outcomes["canonicalize_raised"] += 1
            return
        try:
            c2 = canonicalize(c1, o)
        except Exception as e:  # noqa
            res.violation("idempotent", dict(case, ordering=str(o)), f"canonicalising the canonical form {c1} raised {type(e).__name__}: {e}")
            return
        if not (c2 == c1) or str(c2) != str(c1) or struct_key(c2) != struct_key(c1):
            res.violation(
                "idempotent",
                dict(case, ordering=str(o)),
                f"canon({st.expr}) = {c1} but canonicalising again gives {c2}",
                finding=classify_idem(c1, c2),
            )
            res.outcomes["not_a_fixpoint"] += 1
            ok = False
            break
        if o is None:
            ex.texts.append(str(c1))
        k1 = struct_key(c1)
        vs = list(variants(st.expr))
        vs.append(reversed_all(st.expr))
        for v in vs:
            if struct_key(v) == st.key:
                continue
            res.transitions += 1
            try:
                cv = canonicalize(v, o)
            except Exception as e:  # noqa
                res.violation("presentation", dict(case, ordering=str(o), variant=str(v)), f"canonicalize({v}) raised {type(e).__name__}: {e}")
                ok = False
                break
            if struct_key(cv) != k1 or not (cv == c1):
                res.violation(
                    "presentation",
                    dict(case, ordering=str(o), variant=str(v)),
                    f"{st.expr} canonicalises to {c1} but its presentation variant {v} canonicalises to {cv}",
                    finding=classify_pres(c1, cv),
                )
                res.outcomes["presentation_dependent"] += 1
                ok = False
                break
        if not ok:
            break
    if ok:
        res.outcomes["normal_form"] += 1
        if len(res.samples) < 3 and isinstance(st.expr, Product) and len(st.hist) > 2:
            res.sample(dict(case, canonical=str(canonicalize(st.expr))))


def classify_idem(c1, c2):
    return None


def classify_pres(c1, cv):
    return None


def work(shard, tier, seed):
    alpha, depth, lo, hi = shard
    res = Res()
    if alpha == "construction":
        check_construction_order(res)
        return res
    import os

    hs = int(os.environ.get("PYTHONHASHSEED", "0") or 0)
    if tier == "quick" and hs != 0 and (lo // 8) % 3:
        return res  # quick: the other hash seeds revisit every third shard (seed 0 covers everything)
    ex = Explorer(alpha, depth, seed, tier=tier)
    ex.texts = []
    ex.run(res, lo, hi, on_state=on_state, on_transition=None)
    res.digests[f"{alpha}/{depth}/{lo}"] = hashlib.sha256("\n".join(ex.texts).encode()).hexdigest()
    return res


def replay(case, clause=None):
    import os

    res = Res()
    alpha = case.get("alpha", "a24")
    ex = Explorer(alpha, 0, int(os.environ.get("VERIF_SEED", "0") or 0), tier="thorough")
    ex.texts = []
    on_state(ex, res, rebuild(case["ops"], alpha))
    return list(res.violations)
