"""C14 Mixed-graph surgery operations meet their set-theoretic definitions.

State space: every base graph of the universe, built under several insertion orders; BFS over
sequences (depth <= 2) of graph-returning operations with every node subset as argument; at
every state of depth <= 1 every query operation with every node subset.  Oracle: the set-triple
reference model advanced in lock-step; receiver snapshot unchanged.
"""

from __future__ import annotations

from functools import lru_cache

import itertools as itt

from ..graphs import (
    G,
    ancestors_inc,
    children,
    descendants_inc,
    districts,
    enum_D,
    enum_L,
    is_acyclic,
    is_topological,
    parents,
    remove_in_edges,
    remove_nodes,
    remove_out_edges,
    subgraph,
    subsets,
)
from ..runner import Res
from ..y0util import V, ref_triple, snapshot, to_y0, triple

TITLE = "Mixed-graph surgery operations meet their set-theoretic definitions"
HASH_SEEDS = {"quick": [0, 1], "thorough": [0, 1, 2, 3]}
CHUNK = 8


@lru_cache(maxsize=None)
def _universe(tier):
    out = [("L", g) for g in enum_L(2)] + [("L", g) for g in enum_L(3)] + [("D", g) for g in enum_D(3)]
    if tier == "thorough":
        out += [("L4", g) for g in enum_L(4)]
    return out


def shards(tier):
    uni = _universe(tier)
    size = CHUNK if tier == "quick" else 32
    out = [(i, min(i + size, len(uni))) for i in range(0, len(uni), size)]
    # builder phase: one shard per first operation (and second, in thorough)
    ops = builder_ops()
    if tier == "quick":
        out += [("build", (i,)) for i in range(len(ops))]
    else:
        out += [("build", (i, j)) for i in range(len(ops)) for j in range(len(ops))]
    return out


BUILD_NAMES = ("A", "B", "C")
BUILD_DEPTH = {"quick": 3, "thorough": 4}


def builder_ops():
    ops = [("add_node", (v,)) for v in BUILD_NAMES]
    ops += [("add_directed_edge", (u, v)) for u in BUILD_NAMES for v in BUILD_NAMES if u != v]
    ops += [("add_undirected_edge", (u, v)) for u in BUILD_NAMES for v in BUILD_NAMES if u != v]
    ops += [("copy", ())]
    # functional operations as steps: the result becomes the live object, the receiver must never change afterwards
    for name in GRAPH_OPS:
        for arg in ((), ("A",), ("A", "B")):
            ops.append((name, arg))
    return ops


def _apply_builder(y, ref: G, op, args):
    """Apply one mutating builder operation to the live graph and to the reference triple."""
    if op == "add_node":
        y.add_node(V(args[0]))
        nodes = ref.nodes if args[0] in ref.nodes else ref.nodes + (args[0],)
        return y, G(nodes, ref.di, ref.bi)
    nodes = ref.nodes + tuple(a for a in args if a not in ref.nodes)
    if op == "add_directed_edge":
        y.add_directed_edge(V(args[0]), V(args[1]))
        di = ref.di if tuple(args) in ref.di else ref.di + (tuple(args),)
        return y, G(nodes, di, ref.bi)
    if op == "add_undirected_edge":
        y.add_undirected_edge(V(args[0]), V(args[1]))
        e = tuple(sorted(args))
        bi = ref.bi if e in ref.bi else ref.bi + (e,)
        return y, G(nodes, ref.di, bi)
    raise ValueError(op)


def _explore_builder(res: Res, prefix, tier):
    """Every sequence of builder operations (depth <= BUILD_DEPTH) starting with ``prefix``, replayed on a fresh
    NxMixedGraph; after EVERY step all query operations are run on the live object and compared with the reference."""
    from y0.graph import NxMixedGraph

    ops = builder_ops()
    depth = BUILD_DEPTH[tier]
    for tail in itt.product(range(len(ops)), repeat=depth - len(prefix)):
        # sequences shorter than depth are prefixes of longer ones: every step is checked, so they are covered
        seq = tuple(prefix) + tail
        y = NxMixedGraph()
        ref = G((), (), ())
        originals = []  # (object, snapshot, ref) of graphs that were copied from: must never change afterwards
        hist = []
        res.states += 1
        for k in seq:
            op, args = ops[k]
            hist.append([op, list(args)])
            case = {"builder_ops": list(hist)}
            res.transitions += 1
            try:
                if op == "copy":
                    c = y.copy()
                    if c is y:
                        res.violation("copy", case, "copy() returned the receiver")
                    originals.append((y, snapshot(y), ref))
                    y = c
                elif op in GRAPH_OPS:
                    if not set(args) <= set(ref.nodes):
                        break  # argument names a node that does not exist yet: not a meaningful step
                    real, model = GRAPH_OPS[op]
                    c = real(y, _vs(args))
                    originals.append((y, snapshot(y), ref))
                    y, ref = c, model(ref, args)
                else:
                    y, ref = _apply_builder(y, ref, op, args)
            except Exception as e:  # noqa
                res.violation(op, case, f"raised {type(e).__name__}: {e}")
                break
            if triple(y) != ref_triple(ref):
                res.violation(op, case, f"after {hist}: graph is {triple(y)}, reference {ref.key()}")
                res.outcomes["mismatch"] += 1
                break
            nviol = len(res.violations)
            _check_queries(res, case, y, ref, is_acyclic(ref.nodes, ref.di))
            if len(res.violations) > nviol:
                res.outcomes["mismatch"] += 1
                break
            res.outcomes["builder_step_ok"] += 1
        for o, snap, oref in originals:
            if snapshot(o) != snap or triple(o) != ref_triple(oref):
                res.violation("receiver_mutated", {"builder_ops": hist}, "mutating a derived graph changed the graph it was derived from")
        if len(seq) == depth and len(res.samples) < 2 and seq[0] > 3:
            res.sample({"builder_ops": hist})


def describe(tier):
    return {
        "bound": "base graphs: L(2)+L(3) all labelled ADMGs and D(3) all 512 directed mixed graphs with cycles"
        + ("; L(4) all 34752 labelled ADMGs (depth 1)" if tier == "thorough" else "")
        + "; every node subset as argument; graph-returning operation sequences of depth 2 (n<=3) ;"
        " insertion orders: all node permutations (n<=3) x reversed edge lists; PYTHONHASHSEED in "
        + str(HASH_SEEDS[tier]),
        "rule": "state = (base graph, insertion order, operation sequence); transition = one real y0 call whose "
        "result is compared with the set-triple reference model",
        "bound_builder": "plus every sequence of mutating builder operations (add_node, add_directed_edge, add_undirected_edge over "
        "3 names, copy, and the functional operations as steps) of depth %d from the empty graph, with every query operation run on the live object after every step"
        % BUILD_DEPTH[tier],
        "assumptions": [
            "moralize is specified by its docstring: same nodes and directed edges, undirected = original + co-parents",
            "get_nodes_in_directed_paths is exercised with disjoint source/target sets",
        ],
    }


# ---- reference definitions --------------------------------------------------------------


def ref_moralize(g: G):
    bi = {frozenset(e) for e in g.bi}
    for v in g.nodes:
        for a, b in itt.combinations(sorted(parents(g, v)), 2):
            bi.add(frozenset((a, b)))
    return (frozenset(g.nodes), frozenset(g.di), frozenset(bi))


def ref_disorient(g: G):
    return (
        frozenset(g.nodes),
        frozenset(frozenset(e) for e in g.di if e[0] != e[1]) | frozenset(frozenset(e) for e in g.bi),
    )


def ref_pillow(g: G, s):
    s = set(s)
    return {p for v in s for p in parents(g, v)} - s


def ref_blanket(g: G, s):
    s = set(s)
    out = set()
    for v in s:
        out |= parents(g, v)
        for c in children(g, v):
            out.add(c)
            out |= parents(g, c)
    return out - s


def ref_directed_paths(g: G, src, dst):
    """Nodes on a simple directed path (length >= 1) from a source to a target."""
    out = set()
    ch = {v: children(g, v) for v in g.nodes}

    def rec(path, t):
        cur = path[-1]
        if cur == t and len(path) > 1:
            out.update(path)
            return
        for c in ch[cur]:
            if c not in path:
                rec(path + [c], t)

    for s in src:
        for t in dst:
            if s != t:
                rec([s], t)
    return out


GRAPH_OPS = {
    "subgraph": (lambda y, s: y.subgraph(s), subgraph),
    "remove_in_edges": (lambda y, s: y.remove_in_edges(s), remove_in_edges),
    "remove_out_edges": (lambda y, s: y.remove_out_edges(s), remove_out_edges),
    "remove_nodes_from": (lambda y, s: y.remove_nodes_from(s), remove_nodes),
}


def _vs(s):
    return {V(x) for x in s}


def _names(xs):
    return {str(x) for x in xs}


def _check_queries(res: Res, case, y, g: G, acyclic: bool):
    """All query operations on the real graph y whose reference triple is g."""

    def bad(op, arg, got, want):
        c = dict(case)
        c["query"] = [op, arg]
        res.violation(op, c, f"{op}({arg}) -> {got!r}, reference {want!r}")

    before = snapshot(y)
    nodes = list(g.nodes)
    for s in subsets(nodes, 0):
        sl = list(s)
        if s:
            res.transitions += 4
            got = _names(y.ancestors_inclusive(_vs(s)))
            if got != set(ancestors_inc(g, s)):
                bad("ancestors_inclusive", sl, sorted(got), sorted(ancestors_inc(g, s)))
            got = _names(y.descendants_inclusive(_vs(s)))
            if got != set(descendants_inc(g, s)):
                bad("descendants_inclusive", sl, sorted(got), sorted(descendants_inc(g, s)))
            got = _names(y.get_markov_pillow(_vs(s)))
            if got != ref_pillow(g, s):
                bad("get_markov_pillow", sl, sorted(got), sorted(ref_pillow(g, s)))
            got = _names(y.get_markov_blanket(_vs(s)))
            if got != ref_blanket(g, s):
                bad("get_markov_blanket", sl, sorted(got), sorted(ref_blanket(g, s)))
            if len(s) == 1:
                res.transitions += 2
                got = _names(y.ancestors_inclusive(V(s[0])))
                if got != set(ancestors_inc(g, s)):
                    bad("ancestors_inclusive", s[0], sorted(got), sorted(ancestors_inc(g, s)))
                got = _names(y.get_markov_blanket(V(s[0])))
                if got != ref_blanket(g, s):
                    bad("get_markov_blanket", s[0], sorted(got), sorted(ref_blanket(g, s)))
            if acyclic:
                res.transitions += 1
                order = y.topological_sort()
                got = [str(v) for v in y.pre(_vs(s))]
                names = [str(v) for v in order]
                idx = min(names.index(x) for x in s)
                if got != names[:idx]:
                    bad("pre", sl, got, names[:idx])
                # explicit order given: exact
                for order2 in (tuple(nodes), tuple(reversed(nodes))):
                    res.transitions += 1
                    got = [str(v) for v in y.pre(_vs(s), [V(x) for x in order2])]
                    cut = min(order2.index(x) for x in s)
                    if got != list(order2[:cut]):
                        bad("pre_explicit", [sl, list(order2)], got, list(order2[:cut]))
            # intervene: star False and star True
            from y0.dsl import Intervention

            for star in (False, True):
                res.transitions += 1
                ivs = {Intervention(name=x, star=star) for x in s}
                try:
                    got = y.intervene(ivs)
                except Exception as e:  # noqa
                    bad("intervene", [sl, star], f"{type(e).__name__}: {e}", "a graph")
                    continue
                want_nodes = frozenset(str(V(x).intervene(ivs)) for x in g.nodes)
                lab = {x: str(V(x).intervene(ivs)) for x in g.nodes}
                want_di = frozenset((lab[a], lab[b]) for a, b in g.di if b not in s)
                want_bi = frozenset(frozenset((lab[a], lab[b])) for a, b in g.bi if a not in s and b not in s)
                if triple(got) != (want_nodes, want_di, want_bi):
                    bad("intervene", [sl, star], triple(got), (want_nodes, want_di, want_bi))
            # directed paths: s sources, every disjoint target set
            rest = [v for v in nodes if v not in s]
            for t in subsets(rest, 1):
                res.transitions += 1
                from y0.graph import get_nodes_in_directed_paths

                got = _names(get_nodes_in_directed_paths(y, _vs(s), _vs(t)))
                want = ref_directed_paths(g, s, t)
                if got != want:
                    bad("get_nodes_in_directed_paths", [sl, list(t)], sorted(got), sorted(want))
    # whole-graph queries
    res.transitions += 3
    got = frozenset(frozenset(_names(d)) for d in y.districts())
    if got != districts(g):
        bad("districts", None, sorted(map(sorted, got)), sorted(map(sorted, districts(g))))
    else:
        # partition clause, checked on the real result itself
        allv = [x for d in y.districts() for x in d]
        if len(allv) != len(set(allv)) or _names(allv) != set(g.nodes):
            bad("districts", None, "not a partition", "partition of the nodes")
    for v in g.nodes:
        res.transitions += 1
        try:
            gd = frozenset(_names(y.get_district(V(v))))
        except Exception as e:  # noqa
            gd = f"{type(e).__name__}"
        want = next(d for d in districts(g) if v in d)
        if gd != want:
            bad("get_district", v, gd, sorted(want))
    m = y.moralize()
    if triple(m) != ref_moralize(g):
        bad("moralize", None, triple(m), ref_moralize(g))
    d = y.disorient()
    got = (frozenset(str(n) for n in d.nodes()), frozenset(frozenset((str(a), str(b))) for a, b in d.edges()))
    if got != ref_disorient(g):
        bad("disorient", None, got, ref_disorient(g))
    if acyclic:
        res.transitions += 1
        order = [str(v) for v in y.topological_sort()]
        if not is_topological(g, order):
            bad("topological_sort", None, order, "a linear extension containing every node once")
    if snapshot(y) != before:
        res.violation("receiver_mutated", case, "a query operation modified its receiver")


def _explore_graph(res: Res, kind, g: G, tier):
    acyclic0 = is_acyclic(g.nodes, g.di)
    n = len(g.nodes)
    if n <= 3:
        orders = list(itt.permutations(g.nodes))
    else:
        orders = [g.nodes, tuple(reversed(g.nodes))]
    depth = 2 if n <= 3 else 1
    node_subsets = list(subsets(g.nodes, 0))
    for oi, order in enumerate(orders):
        for rev in (False, True):
            if rev and not (g.di or g.bi):
                continue
            base = to_y0(g, node_order=order, reverse_edges=rev)
            case0 = {"graph": g.to_json(), "order": list(order), "rev": rev, "ops": []}
            res.states += 1
            if triple(base) != ref_triple(g):
                res.violation("construct", case0, f"from_str_edges built {triple(base)}")
                continue
            res.sample(case0) if oi == 0 and not rev else None
            res.outcomes["base_states"] += 1
            # queries on base only for the first two presentations (others differ only in order)
            if oi < 2:
                _check_queries(res, case0, base, g, acyclic0)
            frontier = [(base, g, [])]
            for d in range(depth):
                nxt = []
                for y, ref, ops in frontier:
                    before = snapshot(y)
                    for name, (real, model) in GRAPH_OPS.items():
                        for s in node_subsets:
                            if not set(s) <= set(ref.nodes):
                                continue
                            res.transitions += 1
                            ops2 = ops + [[name, list(s)]]
                            case = dict(case0, ops=ops2)
                            want = model(ref, s)
                            try:
                                out = real(y, _vs(s))
                            except Exception as e:  # noqa
                                res.violation(name, case, f"raised {type(e).__name__}: {e}")
                                continue
                            res.states += 1
                            if triple(out) != ref_triple(want):
                                res.violation(
                                    name,
                                    case,
                                    f"{name}({list(s)}) on {ref.key()} gave {sorted(triple(out)[0])},"
                                    f"{sorted(triple(out)[1])},{sorted(map(sorted, triple(out)[2]))}; reference {want.key()}",
                                    finding=_classify(name, ref, s),
                                )
                                res.outcomes["mismatch"] += 1
                                continue
                            if out is y:
                                res.violation(name, case, "returned the receiver itself, not a new graph")
                            res.outcomes["match"] += 1
                            if len(s) == 1:
                                # single Variable argument form
                                res.transitions += 1
                                out1 = real(y, V(s[0]))
                                if triple(out1) != ref_triple(want):
                                    res.violation(name, case, "single-Variable argument differs from one-element set")
                            if d == 0 and oi == 0 and not rev:
                                _check_queries(res, case, out, want, is_acyclic(want.nodes, want.di))
                            if d + 1 < depth:
                                nxt.append((out, want, ops2))
                    if snapshot(y) != before:
                        res.violation("receiver_mutated", dict(case0, ops=ops), "graph operation modified its receiver")
                # dedup next frontier on the order-sensitive snapshot of the real object
                seen = set()
                frontier = []
                for y, ref, ops in nxt:
                    k = snapshot(y)
                    if k not in seen:
                        seen.add(k)
                        frontier.append((y, ref, ops))


def _classify(name, ref: G, s):
    return None


def work(shard, tier, seed):
    res = Res()
    if shard[0] == "build":
        _explore_builder(res, shard[1], tier)
        return res
    lo, hi = shard
    uni = _universe(tier)
    for kind, g in uni[lo:hi]:
        _explore_graph(res, kind, g, tier)
    return res


def replay(case, clause=None):
    res = Res()
    if "builder_ops" in case:
        ops = builder_ops()
        idx = [ops.index((o, tuple(a))) for o, a in case["builder_ops"]]
        BUILD_DEPTH["replay"] = len(idx)
        _explore_builder(res, idx, "replay")
        return list(res.violations)
    g = G.from_json(case["graph"])
    _explore_graph(res, "replay", g, "quick")
    want_ops = case.get("ops")
    return [v for v in res.violations if (clause is None or v["clause"] == clause)]
