"""C12 Printing and parsing are inverse and printing is unambiguous.

State space: expressions built through the public DSL operators (probability builders with value
marks, intervention subscripts and populations, Q-factors, One, Zero, *, /, Sum, marginalize,
conditional) by the exploration plan of mc.exprs (family "print").
Meaning clause: parse_y0(str(e)) succeeds and denotes the same quantity as e (opaque-leaf semantics:
every probability term is an arbitrary rational determined by its set of (variable, world, value)
items, so only arithmetic identities can make two different trees agree), at every assignment.
Object clause: when every division has division-free, constant-free operands and is not a factor of a
product, parse_y0(str(e)) == e and prints to the same text.
"""

from __future__ import annotations

from y0.dsl import Fraction, One, Product, Zero

from ..exprs import Explorer, State, case_of, level, plan_shards, rebuild, struct_key
from ..runner import Res
from ..semantics import walk

TITLE = "Printing and parsing are inverse and printing is unambiguous"
PLANS12 = {"quick": (("a24", 1),), "thorough": (("a24", 1), ("a12", 2))}


def shards(tier):
    return plan_shards(tier, 8 if tier == "quick" else 64, family="print", plans=PLANS12)


def describe(tier):
    parts = []
    for alpha, depth in PLANS12[tier]:
        al, sts = level(alpha, depth, "print")
        parts.append(f"{len(al)}-atom alphabet: all expressions up to {depth + 1} public operations deep")
    return {
        "bound": "variables A, B, C; atoms: plain / conditional / interventional (+ and - subscripts) / value-marked / "
        "population-tagged probabilities, Q-factors, One, Zero; operators *, / (both sides), Sum, marginalize, conditional "
        "with every non-empty range subset; " + "; ".join(parts) + "; every assignment of the free values",
        "rule": "state = expression built by public operators (dedup by exact structure); transition = str() followed by "
        "parse_y0(); the parsed object's value function is compared with the original's; in the un-nested-division "
        "sub-family the parsed object must equal the original and print identically",
        "assumptions": [
            "opaque-leaf semantics: a probability term's value depends on the set of its items and its population only",
            "a plain N, -N and +N are three independent values; Sum binds the plain N",
        ],
    }


def in_object_family(e) -> bool:
    """Every division has division-free, non-constant operands and is not itself a factor of a product."""
    for node in walk(e):
        if isinstance(node, Product) and any(isinstance(x, Fraction) for x in node.expressions):
            return False
        if isinstance(node, Fraction):
            for side in (node.numerator, node.denominator):
                if any(isinstance(x, (Fraction, One, Zero)) for x in walk(side)):
                    return False
    return True


def on_state(ex: Explorer, res: Res, st: State):
    from y0.parser import parse_y0

    case = case_of(st, {"alpha": ex.alpha})
    res.transitions += 1
    text = str(st.expr)
    try:
        parsed = parse_y0(text)
    except Exception as e:  # noqa
        res.violation("parse", case, f"parse_y0({text!r}) raised {type(e).__name__}: {e}", finding=None)
        res.outcomes["parse_failed"] += 1
        return
    ps = State(parsed, st.hist + ["parse(str)"], linked=False)
    if st.err or ps.err:
        if ps.err and not st.err:
            res.violation("meaning", case, f"parsed form {parsed} cannot be read: {ps.err}")
        return
    world = ex.worlds[0]
    for env in ex.envs_for(st.free, ps.free):
        want = st.value(env, world)
        if want is None:
            continue
        got = ps.value(env, world)
        if got != want:
            res.violation(
                "meaning",
                dict(case, env={f"{n}{'' if s is None else ('+' if s else '-')}": v for (n, s), v in sorted(env.items(), key=str)}),
                f"{text!r} parses to {parsed} which evaluates to {got}; the printed object evaluates to {want}",
            )
            res.outcomes["meaning_changed"] += 1
            return
    if in_object_family(st.expr):
        if struct_key(parsed) != st.key or not (parsed == st.expr) or str(parsed) != text:
            res.violation("object", case, f"{text!r} parses to {parsed!r} (prints as {str(parsed)!r}), not equal to the original object")
            res.outcomes["object_changed"] += 1
            return
        res.outcomes["roundtrip_equal"] += 1
    else:
        res.outcomes["roundtrip_same_meaning"] += 1
    if len(res.samples) < 3 and len(st.hist) > 2:
        res.sample(dict(case, text=text))


def work(shard, tier, seed):
    alpha, depth, lo, hi = shard
    res = Res()
    ex = Explorer(alpha, depth, seed, family="print", tier=tier)
    ex.run(res, lo, hi, on_state=on_state, on_transition=None)
    return res


def replay(case, clause=None):
    import os

    res = Res()
    alpha = case.get("alpha", "a24")
    ex = Explorer(alpha, 0, int(os.environ.get("VERIF_SEED", "0") or 0), family="print", tier="thorough")
    on_state(ex, res, rebuild(case["ops"], alpha, "print"))
    return list(res.violations)
