"""C12 Printing and parsing are inverse and printing is unambiguous.

State space: expressions built through the public DSL operators (probability builders with value
marks, intervention subscripts and populations, Q-factors, One, Zero, *, /, Sum, marginalize,
conditional) by the exploration plan of mc.exprs (family "print").
Meaning clause: parse_y0(str(e)) succeeds and denotes the same quantity as e (opaque-leaf semantics:
every probability term is an arbitrary rational determined by its set of (variable, world, value)
items, so only arithmetic identities can make two different trees agree), at every assignment.
Object clause: when every division has division-free, constant-free operands and is not a factor of a
product, parse_y0(str(e)) == e and prints to the same text.
"""

from __future__ import annotations

from y0.dsl import Fraction, One, Product, Zero

from ..exprs import Explorer, State, case_of, level, plan_shards, rebuild, struct_key
from ..runner import Res
from ..semantics import walk

TITLE = "Printing and parsing are inverse and printing is unambiguous"
PLANS12 = {"quick": (("a24", 1),), "thorough": (("a24", 1), ("a12", 2))}


def documented_names():
    """The variable names parse_y0 documents: A-Z (P and Q are the probability / Q-factor builders), Pi and π, each bare,
    with a digit suffix and with an underscore-digit suffix.  Generated from the documented scheme, not read from the
    parser's table."""
    import string

    out = []
    for letter in list(string.ascii_uppercase) + ["Pi", "π"]:
        if letter in ("P", "Q"):
            continue
        out.append(letter)
        for i in range(10):
            out += [f"{letter}{i}", f"{letter}_{i}"]
    return out


def name_expressions(name):
    """The name in every role a variable can play in a printed expression, next to a partner variable; for the Pi / π
    families also next to its look-alike in the other spelling."""
    from y0.dsl import PP, P, Q, Sum, Variable

    n = Variable(name)
    a = Variable("A") if name != "A" else Variable("B")
    out = [
        ("outcome", P(n)),
        ("joint", P(n, a)),
        ("parent", P(a | n)),
        ("child", P(n | a)),
        ("intervention", P[n](a)),
        ("intervened", P[a](n)),
        ("counterfactual_minus", P(n @ -a)),
        ("counterfactual_plus", P(a @ +n)),
        ("value_mark", P(-n, a)),
        ("sum_range", Sum[n](P(n, a))),
        ("sum_other", Sum[a](P(n, a))),
        ("population", PP[n](a)),
        ("population_child", PP[a](n)),
        ("qfactor_domain", Q[n](a, n)),
        ("qfactor_codomain", Q[a](n)),
        ("fraction", P(n, a) / P(n)),
    ]
    twin = None
    if name.startswith("Pi"):
        twin = "π" + name[2:]
    elif name.startswith("π"):
        twin = "Pi" + name[1:]
    if twin:
        t = Variable(twin)
        out += [
            ("twin_joint", P(n, t)),
            ("twin_sum", Sum[t](P(n, t))),
            ("twin_population", PP[t](n)),
            ("twin_intervention", P[t](n)),
        ]
    return out


def check_names(res: Res, lo, hi):
    """Exhaustive over the documented name alphabet: the printed form of an expression over a documented name parses back
    to the *same object* (distinct names are distinct variables, so object equality is the meaning clause here)."""
    from y0.parser import parse_y0

    for name in documented_names()[lo:hi]:
        for role, e in name_expressions(name):
            res.states += 1
            res.transitions += 1
            case = {"name": name, "role": role}
            text = str(e)
            try:
                parsed = parse_y0(text)
            except Exception as ex:  # noqa
                res.violation("parse", case, f"parse_y0({text!r}) raised {type(ex).__name__}: {ex}")
                res.outcomes["name_parse_failed"] += 1
                continue
            if struct_key(parsed) != struct_key(e) or not (parsed == e) or str(parsed) != text:
                res.violation("meaning", case, f"{text!r} parses to {parsed!r} (prints as {str(parsed)!r}): another variable, hence another quantity")
                res.outcomes["name_changed"] += 1
                continue
            res.outcomes["name_roundtrip_equal"] += 1


def shards(tier):
    names = [("names", i, i + 40) for i in range(0, len(documented_names()), 40)]
    return names + plan_shards(tier, 8 if tier == "quick" else 64, family="print", plans=PLANS12)


def describe(tier):
    parts = []
    for alpha, depth in PLANS12[tier]:
        al, sts = level(alpha, depth, "print")
        parts.append(f"{len(al)}-atom alphabet: all expressions up to {depth + 1} public operations deep")
    return {
        "bound": "variables A, B, C; atoms: plain / conditional / interventional (+ and - subscripts) / value-marked / "
        "population-tagged probabilities, Q-factors, One, Zero; operators *, / (both sides), Sum, marginalize, conditional "
        "with every non-empty range subset; " + "; ".join(parts) + "; every assignment of the free values; name slice: each of the "
        f"{len(documented_names())} documented variable names (A-Z without P, Q; Pi; π; bare, digit- and underscore-digit-suffixed) in "
        "16 roles (outcome, parent, subscript, counterfactual, value mark, Sum range, population, Q-factor, fraction) and the Pi/π "
        "families next to their look-alike in the other spelling",
        "rule": "state = expression built by public operators (dedup by exact structure); transition = str() followed by "
        "parse_y0(); the parsed object's value function is compared with the original's; in the un-nested-division "
        "sub-family the parsed object must equal the original and print identically",
        "assumptions": [
            "opaque-leaf semantics: a probability term's value depends on the set of its items and its population only",
            "a plain N, -N and +N are three independent values; Sum binds the plain N",
        ],
    }


def in_object_family(e) -> bool:
    """Every division has division-free, non-constant operands and is not itself a factor of a product."""
    for node in walk(e):
        if isinstance(node, Product) and any(isinstance(x, Fraction) for x in node.expressions):
            return False
        if isinstance(node, Fraction):
            for side in (node.numerator, node.denominator):
                if any(isinstance(x, (Fraction, One, Zero)) for x in walk(side)):
                    return False
    return True


def on_state(ex: Explorer, res: Res, st: State):
    from y0.parser import parse_y0

    case = case_of(st, {"alpha": ex.alpha})
    res.transitions += 1
    text = str(st.expr)
    try:
        parsed = parse_y0(text)
    except Exception as e:  # noqa
        res.violation("parse", case, f"parse_y0({text!r}) raised {type(e).__name__}: {e}", finding=None)
        res.outcomes["parse_failed"] += 1
        return
    ps = State(parsed, st.hist + ["parse(str)"], linked=False)
    if st.err or ps.err:
        if ps.err and not st.err:
            res.violation("meaning", case, f"parsed form {parsed} cannot be read: {ps.err}")
        return
    world = ex.worlds[0]
    for env in ex.envs_for(st.free, ps.free):
        want = st.value(env, world)
        if want is None:
            continue
        got = ps.value(env, world)
        if got != want:
            res.violation(
                "meaning",
                dict(case, env={f"{n}{'' if s is None else ('+' if s else '-')}": v for (n, s), v in sorted(env.items(), key=str)}),
                f"{text!r} parses to {parsed} which evaluates to {got}; the printed object evaluates to {want}",
            )
            res.outcomes["meaning_changed"] += 1
            return
    if in_object_family(st.expr):
        if struct_key(parsed) != st.key or not (parsed == st.expr) or str(parsed) != text:
            res.violation("object", case, f"{text!r} parses to {parsed!r} (prints as {str(parsed)!r}), not equal to the original object")
            res.outcomes["object_changed"] += 1
            return
        res.outcomes["roundtrip_equal"] += 1
    else:
        res.outcomes["roundtrip_same_meaning"] += 1
    if len(res.samples) < 3 and len(st.hist) > 2:
        res.sample(dict(case, text=text))


def work(shard, tier, seed):
    if shard[0] == "names":
        res = Res()
        check_names(res, shard[1], shard[2])
        return res
    alpha, depth, lo, hi = shard
    res = Res()
    ex = Explorer(alpha, depth, seed, family="print", tier=tier)
    ex.run(res, lo, hi, on_state=on_state, on_transition=None)
    return res


def replay(case, clause=None):
    import os

    res = Res()
    if "name" in case:
        i = documented_names().index(case["name"])
        check_names(res, i, i + 1)
        return [v for v in res.violations if v["input"].get("role") == case.get("role")]
    alpha = case.get("alpha", "a24")
    ex = Explorer(alpha, 0, int(os.environ.get("VERIF_SEED", "0") or 0), family="print", tier="thorough")
    on_state(ex, res, rebuild(case["ops"], alpha, "print"))
    return list(res.violations)
