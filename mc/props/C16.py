"""C16 LV-DAG conversion round-trips; Evans simplification keeps the observed model.

(a) every ADMG G of the universe: from_latent_variable_dag(to_latent_variable_dag(G)) == G.
(b) every DAG on n labelled nodes x every subset tagged latent: simplify_latent_dag is idempotent,
    keeps every observed node, and the ADMG read off the simplified DAG equals the definition-based
    latent projection of the original DAG; separation among observed nodes (oracle on the original
    DAG vs oracle on the returned ADMG) and single-cause/single-effect ID verdicts are unchanged.
(c) evans_simplify(G, latents=L) for every ADMG G and node subset L equals the latent projection of the
    latent-expanded DAG with L additionally latent.
(b') operation sequences on live LV-DAG objects (n <= 4): simplify, retag one observed node as latent on the same
    object or on a copy, simplify again; the second result is compared with the projection of what the call was given.
(d) the consumer of the pipeline (taheri_design_dag / taheri_design_admg, asked for every latent configuration):
    each Result's mixed graph equals the latent projection for its latent set, its lists of latent and observed
    nodes partition the inducible nodes, and its identifiability flag equals the oracle verdict on the projection.
"""

from __future__ import annotations

from functools import lru_cache
import itertools as itt

from ..graphs import (
    G,
    dsep_paths,
    enum_L,
    enum_O,
    enum_T,
    identifiable_tp,
    labelled_dags,
    latent_expand,
    latent_projection,
    msep,
    subsets,
)
from ..runner import Res
from ..y0util import V, from_y0, snapshot, to_y0

TITLE = "LV-DAG conversion round-trips; Evans simplification keeps the observed model"
NAMES5 = tuple("ABCDE")


@lru_cache(maxsize=None)
def _universe(tier):
    items = []
    ns = (1, 2, 3, 4)
    for n in ns:
        for g in enum_L(n) if (n < 4 or tier == "thorough") else enum_O(4):
            items.append(("roundtrip", g))
    for n in (1, 2, 3, 4):
        for names, di, lat in enum_T(n):
            items.append(("simplify", (names, di, tuple(sorted(lat)))))
    if tier == "quick":
        # name-ordered five-node DAGs, every proper non-empty latent subset
        pairs = [(i, j) for i in range(5) for j in range(i + 1, 5)]
        for mask in range(1 << len(pairs)):
            di = tuple((NAMES5[i], NAMES5[j]) for k, (i, j) in enumerate(pairs) if mask >> k & 1)
            for lat in subsets(NAMES5, 1, 4):
                items.append(("simplify", (NAMES5, di, tuple(lat))))
    else:
        # all 29 281 labelled five-node DAGs, every proper non-empty latent subset
        for di in labelled_dags(5):
            for lat in subsets(NAMES5, 1, 4):
                items.append(("simplify", (NAMES5, di, tuple(lat))))
    for n in (2, 3):
        for g in enum_L(n):
            items.append(("evans", g))
    for g in enum_O(4, max_edges=None if tier == "thorough" else 4):
        items.append(("evans", g))
    # (d) experimental-design consumer: every labelled DAG on 3..4 nodes (thorough: name-ordered five-node DAGs too),
    # every ordered (cause, effect); ADMG entry point on L(3) and O(4, <=4 edges)
    for n in (3, 4):
        for di in labelled_dags(n):
            items.append(("design_dag", (NAMES5[:n], di)))
    pairs = [(i, j) for i in range(5) for j in range(i + 1, 5)]
    for mask in range(1 << len(pairs)):
        di = tuple((NAMES5[i], NAMES5[j]) for k, (i, j) in enumerate(pairs) if mask >> k & 1)
        if tier == "thorough" or len(di) <= 5:
            items.append(("design_dag", (NAMES5, di)))
    for g in enum_L(3):
        items.append(("design_admg", g))
    for g in enum_O(4, max_edges=None if tier == "thorough" else 4):
        items.append(("design_admg", g))
    return items


def shards(tier):
    n = len(_universe(tier))
    size = 256 if tier == "quick" else 2048
    return [(i, min(i + size, n)) for i in range(0, n, size)]


def describe(tier):
    return {
        "bound": "(a) round trip on "
        + ("L(1..3) + O(4)" if tier == "quick" else "L(1..4) all labelled ADMGs")
        + "; (b) all DAGs on <=4 labelled nodes x every latent subset (543 x 16 at n=4)"
        + (
            " + all 29 281 labelled five-node DAGs x every proper non-empty latent subset"
            if tier == "thorough"
            else " + all 1024 name-ordered five-node DAGs x every proper non-empty latent subset"
        )
        + "; (b') sequences simplify / hide one observed node (same object or copy) / simplify on every tagged DAG up to 4 nodes"
        + "; (c) evans_simplify with every additional latent subset on L(2), L(3), "
        + ("O(4)" if tier == "thorough" else "O(4, <=4 edges)")
        + "; all observed pairs and conditioning sets; all single-cause/single-effect queries"
        + "; (d) taheri_design_dag on all labelled DAGs of 3..4 nodes and name-ordered five-node DAGs"
        + (" " if tier == "thorough" else " with <=5 edges ")
        + "x every ordered (cause, effect) x every latent configuration; taheri_design_admg on L(3), "
        + ("O(4)" if tier == "thorough" else "O(4, <=4 edges)"),
        "rule": "state = (graph or tagged DAG); transition = one y0 conversion/simplification call compared with the "
        "definition-based latent projection and with separation / identifiability oracles",
        "assumptions": [
            "latent projection by definition: X->Y iff a directed path X..Y exists whose interior is latent; X<->Y iff a "
            "latent has directed latent-interior paths to both",
        ],
    }


def _lvdag(names, di, lat):
    import networkx as nx

    d = nx.DiGraph()
    for n in names:
        d.add_node(V(n), hidden=(n in lat))
    for a, b in di:
        d.add_edge(V(a), V(b))
    return d


def _dag_key(d):
    return (
        tuple(sorted((str(n), bool(dat.get("hidden"))) for n, dat in d.nodes(data=True))),
        tuple(sorted((str(a), str(b)) for a, b in d.edges())),
    )


def check_roundtrip(res: Res, g: G):
    from y0.graph import NxMixedGraph

    case = {"mode": "roundtrip", "graph": g.to_json()}
    res.states += 1
    res.transitions += 1
    for order in (g.nodes, tuple(reversed(g.nodes))):
        y = to_y0(g, node_order=order)
        before = snapshot(y)
        try:
            back = NxMixedGraph.from_latent_variable_dag(y.to_latent_variable_dag())
        except Exception as e:  # noqa
            res.violation("roundtrip", case, f"raised {type(e).__name__}: {e}")
            return
        if not (back == y) or from_y0(back) != G(tuple(sorted(g.nodes)), tuple(sorted(g.di)), tuple(sorted(g.bi))):
            res.violation(
                "roundtrip",
                case,
                f"round trip gives nodes {sorted(map(str, back.nodes()))}, directed {sorted((str(a), str(b)) for a, b in back.directed.edges())}, "
                f"bidirected {sorted(tuple(sorted((str(a), str(b)))) for a, b in back.undirected.edges())}",
                finding=None,
            )
            res.outcomes["roundtrip_wrong"] += 1
            return
        if snapshot(y) != before:
            res.violation("side_effect", case, "to_latent_variable_dag modified the graph")
    res.outcomes["roundtrip_ok"] += 1


def _compare_with_projection(res, case, admg, names, di, lat, clause):
    """admg: y0 NxMixedGraph read off; (names, di, lat): original DAG with latent tags."""
    obs = [n for n in names if n not in lat]
    proj = latent_projection(names, di, lat)
    got = from_y0(admg)
    ok = True
    missing = sorted(set(obs) - set(got.nodes))
    if missing:
        res.violation("observed_nodes_kept", case, f"observed nodes {missing} are missing from the resulting mixed graph")
        ok = False
    extra = sorted(set(got.nodes) - set(obs))
    if extra:
        res.violation(clause, case, f"resulting mixed graph contains non-observed nodes {extra}")
        ok = False
    want = G(tuple(sorted(proj.nodes)), tuple(sorted(proj.di)), tuple(sorted(tuple(sorted(e)) for e in proj.bi)))
    if (set(got.di), set(got.bi)) != (set(want.di), set(want.bi)):
        res.violation(
            clause,
            case,
            f"mixed graph read off has directed {list(got.di)}, bidirected {list(got.bi)}; latent projection has "
            f"directed {list(want.di)}, bidirected {list(want.bi)}",
        )
        ok = False
    # consequences: separations and ID verdicts among observed nodes (judged on what was returned)
    got_full = G(tuple(sorted(set(got.nodes) | set(obs))), got.di, got.bi)
    for a, b in itt.combinations(obs, 2):
        rest = [v for v in obs if v not in (a, b)]
        for c in subsets(rest):
            res.transitions += 1
            if dsep_paths(names, di, a, b, c) != msep(got_full, a, b, c):
                res.violation("separation_preserved", dict(case, a=a, b=b, C=list(c)), "separation differs between the original DAG and the resulting mixed graph")
                ok = False
    if not missing and not extra:
        from y0.algorithm.identify import identify_outcomes

        for x, y in itt.permutations(obs, 2):
            res.transitions += 1
            try:
                est = identify_outcomes(admg, treatments={V(x)}, outcomes={V(y)})
                verdict = est is not None
            except Exception as e:  # noqa
                verdict = f"{type(e).__name__}"
            if verdict != identifiable_tp(want, [x], [y]):
                res.violation("id_verdict_preserved", dict(case, x=x, y=y), f"ID verdict {verdict} on the result, oracle on the projection {identifiable_tp(want, [x], [y])}")
                ok = False
    return ok


def check_simplify(res: Res, names, di, lat):
    from y0.algorithm.simplify_latent import simplify_latent_dag
    from y0.graph import NxMixedGraph

    case = {"mode": "simplify", "nodes": list(names), "di": [list(e) for e in di], "latent": list(lat)}
    res.states += 1
    res.transitions += 2
    d = _lvdag(names, di, lat)
    try:
        r1 = simplify_latent_dag(d)
        g1 = r1.graph
        k1 = _dag_key(g1)
        g2 = simplify_latent_dag(g1.copy()).graph
        k2 = _dag_key(g2)
    except Exception as e:  # noqa
        res.violation("simplify_exception", case, f"simplify_latent_dag raised {type(e).__name__}: {e}")
        res.outcomes["simplify_exception"] += 1
        return
    ok = True
    if k1 != k2:
        res.violation("idempotent", case, f"second simplification changes the DAG: {k1} -> {k2}")
        ok = False
    obs = {n for n in names if n not in lat}
    kept = {str(n) for n, dat in g1.nodes(data=True) if not dat.get("hidden")}
    if not obs <= kept:
        res.violation("observed_nodes_kept", case, f"simplified DAG lost observed nodes {sorted(obs - kept)}")
        ok = False
    if kept - obs:
        res.violation("simplify", case, f"simplified DAG has new observed nodes {sorted(kept - obs)}")
        ok = False
    try:
        admg = NxMixedGraph.from_latent_variable_dag(g1)
    except Exception as e:  # noqa
        res.violation("simplify", case, f"from_latent_variable_dag raised {type(e).__name__}: {e}")
        return
    ok = _compare_with_projection(res, case, admg, names, di, set(lat), "projection") and ok
    res.outcomes["simplify_ok" if ok else "simplify_wrong"] += 1
    if len(names) <= 4:
        ok2 = _retag_sequences(res, case, g1, d)
        res.outcomes["sequence_ok" if ok2 else "sequence_wrong"] += 1
    if len(res.samples) < 2 and len(lat) == 2 and len(di) >= 3:
        res.sample(case)


def _read_dag(d):
    """(names, di, latent) of a live LV-DAG, as it is now."""
    names = tuple(sorted(str(n) for n in d.nodes()))
    di = tuple(sorted((str(a), str(b)) for a, b in d.edges()))
    lat = {str(n) for n, dat in d.nodes(data=True) if dat.get("hidden")}
    return names, di, lat


def _retag_sequences(res, case, g1, d0):
    """Operation sequences on live LV-DAG objects: simplify, change one tag in place (an observed node becomes latent) on
    the simplified object itself or on a copy of it, simplify again.  The second call is judged like any other: against
    the latent projection of the DAG it was given.  (State carried from the first call -- graph attributes, copies that
    inherit them -- is only reachable this way.)"""
    from y0.algorithm.simplify_latent import simplify_latent_dag
    from y0.graph import NxMixedGraph

    ok = True
    observed = [n for n, dat in g1.nodes(data=True) if not dat.get("hidden")]
    for node in observed:
        for how in ("same_object", "copy"):
            res.transitions += 1
            d = simplify_latent_dag(d0.copy()).graph  # a fresh first pass (g1 itself stays as the caller saw it)
            if how == "copy":
                d = d.copy()
            d.nodes[node]["hidden"] = True
            names, di, lat = _read_dag(d)
            c2 = dict(case, sequence=["simplify", how, f"hide {node}", "simplify"])
            try:
                g2 = simplify_latent_dag(d).graph
                admg = NxMixedGraph.from_latent_variable_dag(g2)
            except Exception as e:  # noqa
                res.violation("simplify_exception", c2, f"second simplification raised {type(e).__name__}: {e}")
                ok = False
                continue
            want = latent_projection(names, di, lat)
            got = from_y0(admg)
            want_bi = {tuple(sorted(e)) for e in want.bi}
            if set(got.nodes) != set(names) - lat or set(got.di) != set(want.di) or set(got.bi) != want_bi:
                res.violation(
                    "projection",
                    c2,
                    f"after {c2['sequence']}: mixed graph read off has nodes {sorted(got.nodes)}, directed {list(got.di)}, bidirected "
                    f"{list(got.bi)}; latent projection of the DAG handed to the second call has nodes {sorted(set(names) - lat)}, "
                    f"directed {sorted(want.di)}, bidirected {sorted(want_bi)}",
                )
                ok = False
    return ok


def check_evans(res: Res, g: G):
    from y0.algorithm.simplify_latent import evans_simplify

    y = to_y0(g)
    before = snapshot(y)
    nodes, di, lats = latent_expand(g)
    for extra in subsets(g.nodes, 0, len(g.nodes) - 1):
        case = {"mode": "evans", "graph": g.to_json(), "latents": list(extra)}
        res.states += 1
        res.transitions += 1
        try:
            out = evans_simplify(y, latents={V(n) for n in extra} if extra else None)
        except Exception as e:  # noqa
            res.violation("simplify_exception", case, f"evans_simplify raised {type(e).__name__}: {e}")
            res.outcomes["evans_exception"] += 1
            continue
        ok = _compare_with_projection(res, case, out, nodes, di, set(lats) | set(extra), "projection")
        res.outcomes["evans_ok" if ok else "evans_wrong"] += 1
    if snapshot(y) != before:
        res.violation("side_effect", {"mode": "evans", "graph": g.to_json()}, "evans_simplify modified the caller's graph")


def _check_results(res, case, results, names, di, fixed_latent, inducible, cause, effect):
    """results: list of taheri Result; (names, di): the DAG that was enumerated; fixed_latent: always-latent nodes."""
    seen = set()
    ok = True
    for r in results:
        res.transitions += 1
        lat = {str(v) for v in r.latents}
        obs = {str(v) for v in r.observed}
        c2 = dict(case, latents=sorted(lat))
        if lat & obs or (lat | obs) != set(inducible):
            res.violation("design", c2, f"latent {sorted(lat)} and observed {sorted(obs)} do not partition the inducible nodes {sorted(inducible)}")
            ok = False
            continue
        if frozenset(lat) in seen:
            res.violation("design", c2, "latent configuration reported twice")
            ok = False
        seen.add(frozenset(lat))
        all_lat = set(fixed_latent) | lat
        proj = latent_projection(names, di, all_lat)
        got = from_y0(r.admg)
        want_nodes = set(names) - all_lat
        if set(got.nodes) != want_nodes:
            res.violation("observed_nodes_kept", c2, f"result graph has nodes {sorted(got.nodes)}, observed nodes are {sorted(want_nodes)}")
            ok = False
            continue
        want_bi = {tuple(sorted(e)) for e in proj.bi}
        if set(got.di) != set(proj.di) or set(got.bi) != want_bi:
            res.violation("projection", c2, f"result graph has directed {list(got.di)}, bidirected {list(got.bi)}; latent projection has directed {sorted(proj.di)}, bidirected {sorted(want_bi)}")
            ok = False
        want = G(tuple(sorted(want_nodes)), tuple(sorted(proj.di)), tuple(sorted(want_bi)))
        truth = identifiable_tp(want, [cause], [effect])
        if bool(r.identifiable) != truth or (r.estimand is not None) != truth:
            res.violation("id_verdict_preserved", c2, f"Result.identifiable={r.identifiable} (estimand {r.estimand}), oracle on the latent projection says {truth}")
            ok = False
    return ok, seen


def check_design_dag(res: Res, names, di):
    from y0.algorithm.taheri_design import taheri_design_dag

    for cause, effect in itt.permutations(names, 2):
        case = {"mode": "design_dag", "nodes": list(names), "di": [list(e) for e in di], "cause": cause, "effect": effect}
        res.states += 1
        inducible = [n for n in names if n not in (cause, effect)]
        d = _lvdag(names, di, ())
        before = _dag_key(d)
        try:
            results = taheri_design_dag(d, cause, effect, stop=len(inducible) + 1)
        except Exception as e:  # noqa
            res.violation("simplify_exception", case, f"taheri_design_dag raised {type(e).__name__}: {e}")
            res.outcomes["design_exception"] += 1
            continue
        ok, seen = _check_results(res, case, results, names, di, (), inducible, cause, effect)
        if len(seen) != 2 ** len(inducible):
            res.violation("design", case, f"{len(seen)} latent configurations returned when all {2 ** len(inducible)} were requested")
            ok = False
        if _dag_key(d) != before:
            res.violation("side_effect", case, "taheri_design_dag modified the caller's DAG")
            ok = False
        res.outcomes["design_ok" if ok else "design_wrong"] += 1


def check_design_admg(res: Res, g: G):
    from y0.algorithm.taheri_design import taheri_design_admg

    y = to_y0(g)
    before = snapshot(y)
    nodes, di, lats = latent_expand(g)
    for cause, effect in itt.permutations(g.nodes, 2):
        case = {"mode": "design_admg", "graph": g.to_json(), "cause": cause, "effect": effect}
        res.states += 1
        inducible = [n for n in g.nodes if n not in (cause, effect)]
        try:
            results = taheri_design_admg(y, cause, effect, stop=len(inducible) + 1)
        except Exception as e:  # noqa
            res.violation("simplify_exception", case, f"taheri_design_admg raised {type(e).__name__}: {e}")
            res.outcomes["design_exception"] += 1
            continue
        ok, seen = _check_results(res, case, results, nodes, di, lats, inducible, cause, effect)
        if len(seen) != 2 ** len(inducible):
            res.violation("design", case, f"{len(seen)} latent configurations returned when all {2 ** len(inducible)} were requested")
            ok = False
        res.outcomes["design_ok" if ok else "design_wrong"] += 1
    if snapshot(y) != before:
        res.violation("side_effect", {"mode": "design_admg", "graph": g.to_json()}, "taheri_design_admg modified the caller's graph")


def work(shard, tier, seed):
    lo, hi = shard
    res = Res()
    for mode, item in _universe(tier)[lo:hi]:
        if mode == "roundtrip":
            check_roundtrip(res, item)
        elif mode == "simplify":
            check_simplify(res, *item)
        elif mode == "design_dag":
            check_design_dag(res, *item)
        elif mode == "design_admg":
            check_design_admg(res, item)
        else:
            check_evans(res, item)
    return res


def replay(case, clause=None):
    res = Res()
    if case["mode"] == "roundtrip":
        check_roundtrip(res, G.from_json(case["graph"]))
    elif case["mode"] == "simplify":
        check_simplify(res, tuple(case["nodes"]), tuple(tuple(e) for e in case["di"]), tuple(case["latent"]))
    elif case["mode"] == "design_dag":
        check_design_dag(res, tuple(case["nodes"]), tuple(tuple(e) for e in case["di"]))
    elif case["mode"] == "design_admg":
        check_design_admg(res, G.from_json(case["graph"]))
    else:
        check_evans(res, G.from_json(case["graph"]))
    return [v for v in res.violations if clause is None or v["clause"] == clause]
