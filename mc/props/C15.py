"""C15 Implied conditional independencies are enumerated exactly.

State space: graph x size limit k in {None, 0, .., n-2} x retention policy / enumeration variant.
Oracle: with the path-definition separation oracle compute, for every unordered pair, the minimum
size of a separating set.  The returned set must contain exactly one judgement for every pair whose
minimum is <= k (k = None: any), none for other pairs; each judgement must be a true separation,
canonical, and of minimum size.  k is the largest conditioning-set size investigated ("Longest
set of conditions to investigate" in the public docstring).
"""

from __future__ import annotations

from functools import lru_cache
import itertools as itt

from ..builder import NAMES3, build_ops, replay_sequence, run_sequences
from ..graphs import G, enum_L, enum_O, msep, subsets
from ..runner import Res
from ..y0util import V, snapshot, to_y0

TITLE = "Implied conditional independencies are enumerated exactly"
HASH_SEEDS = {"quick": [0, 1], "thorough": [0, 1, 2]}


@lru_cache(maxsize=None)
def _universe(tier):
    # five-node DAGs are needed for a pair that has both a one-node and a two-node separator of other nodes
    dags5 = [g for g in enum_O(5, max_edges=5) if not g.bi and len(g.di) >= 4]
    if tier == "quick":
        return [g for n in (1, 2, 3) for g in enum_L(n)] + list(enum_O(4)) + dags5
    return [g for n in (1, 2, 3, 4) for g in enum_L(n)] + list(enum_O(5, max_edges=4)) + [g for g in dags5 if len(g.di) == 5]


NAMES6 = tuple("ABCDEF")
PAIRS6 = [(i, j) for i in range(6) for j in range(i + 1, 6)]


def _dag6(mask) -> G:
    if mask < 0:  # the 1024 name-ordered five-node DAGs are screened too (numbered -1024..-1)
        names = NAMES6[:5]
        prs = [(i, j) for i in range(5) for j in range(i + 1, 5)]
        return G(names, tuple((names[i], names[j]) for k, (i, j) in enumerate(prs) if (mask + 1024) >> k & 1), ())
    return G(NAMES6, tuple((NAMES6[i], NAMES6[j]) for k, (i, j) in enumerate(PAIRS6) if mask >> k & 1), ())


def upstream_only(g: G) -> bool:
    """True if some pair of the DAG has no minimum-size separator among the parents of its two nodes (the minimum
    separators all reach further upstream): the graphs on which a search confined to a neighbourhood goes wrong.
    5 of the 1024 name-ordered five-node DAGs and about 1.6 % of the six-node ones are of this kind."""
    from ..graphs import msep_bb, parents

    for a, b in itt.combinations(g.nodes, 2):
        rest = [v for v in g.nodes if v not in (a, b)]
        m = next((len(c) for c in subsets(rest) if msep_bb(g, a, b, c)), None)
        if not m:
            continue
        pa = sorted((parents(g, a) | parents(g, b)) - {a, b})
        if not any(msep_bb(g, a, b, c) for c in itt.combinations(pa, m)):
            return True
    return False


def shards(tier):
    n = len(_universe(tier))
    size = 32 if tier == "quick" else 64
    out = [(i, min(i + size, n)) for i in range(0, n, size)]
    out += [("six", i, i + 512) for i in range(-1024, 1 << 15, 512)]
    # builder phase: one live graph object grown edge by edge, the independencies asked after every insertion
    out += [("build", i) for i in range(len(build_ops()))]
    # the same over three names with count-preserving edge moves as steps (constant-size in-place edits; seeded C15-g)
    out += [("buildmv", i) for i in range(len(build_ops(NAMES3)))]
    return out


def describe(tier):
    return {
        "bound": (
            "graphs: L(1..3) all labelled ADMGs + O(4) all name-ordered four-node ADMGs"
            if tier == "quick"
            else "graphs: L(1..4) all labelled ADMGs + O(5, <=4 edges)"
        )
        + " + name-ordered five-node DAGs with 4-5 edges + those of all name-ordered five- and six-node DAGs (1024 + 32 768 screened) in which some pair "
        "has no minimum separator among its nodes' parents (default policy, k in {None, 1, 2}); builder sequences: every sequence of 3 steps over 3 names where a step is an edge insertion or a count-preserving edge move, and every sequence of 3 edge insertions over 4 names on one "
        "live object, k in {None, 1} after every insertion; size limits k in {None, 0..n-2, n}; variants: default (topological) policy, len-lex policy via minimal(), "
        "return_all=True, len-lex policy with return_all on the graph renamed to names of unequal length; PYTHONHASHSEED in "
        + str(HASH_SEEDS[tier])
        + (" (seeds other than 0: graphs up to 3 nodes and four-node graphs up to 3 edges)" if tier == "quick" else ""),
        "rule": "state = (graph, k, variant); transition = one get_conditional_independencies / minimal(d_separations) call "
        "whose result set is compared pair by pair with minimum separating-set sizes from the path-definition oracle",
        "assumptions": [
            "size limit k is inclusive (sets of at most k nodes), as the public docstring states",
            "separation oracle: path definition on the latent-expanded DAG",
        ],
    }


def min_sep_sizes(g: G):
    out = {}
    for a, b in itt.combinations(sorted(g.nodes), 2):
        rest = [v for v in g.nodes if v not in (a, b)]
        best = None
        for c in subsets(rest):
            if msep(g, a, b, c):
                best = len(c)
                break
        out[(a, b)] = best
    return out


def check_result(res, g, case, judgements, mins, k):
    from y0.struct import DSeparationJudgement

    seen = {}
    ok = True
    for j in judgements:
        if not isinstance(j, DSeparationJudgement):
            res.violation("record", case, f"element {j!r} is not a judgement")
            return False
        pair = tuple(sorted((str(j.left), str(j.right))))
        cond = tuple(str(c) for c in j.conditions)
        if pair in seen:
            res.violation("one_per_pair", case, f"pair {pair} listed twice: {seen[pair]} and {cond}")
            ok = False
        seen[pair] = cond
        if (
            not j.separated
            or not j.is_canonical
            or (str(j.left), str(j.right)) != pair
            or tuple(sorted(cond)) != cond
            or len(set(cond)) != len(cond)
            or set(cond) & set(pair)
        ):
            res.violation("canonical", case, f"judgement {j!r} is not a canonical separation record")
            ok = False
        if pair not in mins:
            res.violation("record", case, f"judgement over unknown pair {pair}")
            ok = False
            continue
        if not msep(g, pair[0], pair[1], cond):
            res.violation("true_separation", case, f"{pair} are not separated by {cond}")
            ok = False
        elif mins[pair] is not None and len(cond) != mins[pair]:
            res.violation("minimum_size", case, f"{pair}: listed set {cond} has size {len(cond)}, minimum is {mins[pair]}")
            ok = False
        if k is not None and len(cond) > k:
            res.violation("size_limit", case, f"{pair}: conditioning set {cond} exceeds the limit {k}")
            ok = False
    for pair, m in mins.items():
        want = m is not None and (k is None or m <= k)
        if want and pair not in seen:
            res.violation("missing", case, f"pair {pair} is separable with {m} conditions (limit {k}) but is not listed")
            ok = False
        if not want and pair in seen and (m is None):
            pass  # already reported as not a true separation
    return ok


def explore_graph(res: Res, g: G, only=None):
    from y0.algorithm.conditional_independencies import d_separations, get_conditional_independencies, minimal

    yg = to_y0(g)
    before = snapshot(yg)
    mins = min_sep_sizes(g)
    n = len(g.nodes)
    ks = [None] + list(range(0, max(n - 1, 1))) + [n]
    # the same graph under names of unequal length: the built-in length/lexicographic policy must still prefer fewer
    # conditions, whatever the names look like
    long_names = {"A": "Aaaaaaa", "B": "Bb", "C": "C", "D": "Ddddd", "E": "Ee"}
    yl = to_y0(G(tuple(long_names[n] for n in g.nodes), tuple((long_names[a], long_names[b]) for a, b in g.di), tuple((long_names[a], long_names[b]) for a, b in g.bi)))
    back = {v: k for k, v in long_names.items()}

    def renamed(js):
        from y0.struct import DSeparationJudgement

        return {
            DSeparationJudgement.create(V(back[str(j.left)]), V(back[str(j.right)]), [V(back[str(c)]) for c in j.conditions], separated=j.separated)
            for j in js
        }

    variants = {
        "len_lex_all_long_names": lambda k: renamed(minimal(d_separations(yl, max_conditions=k, return_all=True))),
        "default": lambda k: get_conditional_independencies(yg, max_conditions=k),
        "len_lex": lambda k: minimal(d_separations(yg, max_conditions=k)),
        "return_all": lambda k: get_conditional_independencies(yg, max_conditions=k, return_all=True),
    }
    for k in ks:
        for name, fn in variants.items():
            case = {"graph": g.to_json(), "k": k, "variant": name}
            if only and (only.get("k"), only.get("variant")) != (k, name):
                continue
            res.states += 1
            res.transitions += 1
            try:
                out = fn(k)
            except Exception as e:  # noqa
                res.violation("exception", case, f"raised {type(e).__name__}: {e}")
                continue
            if not isinstance(out, set):
                res.violation("record", case, f"returned a {type(out).__name__}, not a set")
                out = set(out)
            good = check_result(res, g, case, out, mins, k)
            res.outcomes["exact" if good else "wrong"] += 1
            res.extra["judgements_checked"] += len(out)
            if len(res.samples) < 3 and len(out) >= 2 and k is not None:
                res.sample(dict(case, result=sorted(f"{j.left}_|_{j.right}|{','.join(map(str, j.conditions))}" for j in out)))
    if snapshot(yg) != before:
        res.violation("side_effect", {"graph": g.to_json()}, "the caller's graph was modified")


def explore_six(res: Res, g: G, only=None):
    from y0.algorithm.conditional_independencies import get_conditional_independencies

    yg = to_y0(g)
    mins = min_sep_sizes(g)
    for k in (None, 1, 2):
        case = {"graph": g.to_json(), "k": k, "variant": "default"}
        if only and only.get("k") != k:
            continue
        res.states += 1
        res.transitions += 1
        try:
            out = get_conditional_independencies(yg, max_conditions=k)
        except Exception as e:  # noqa
            res.violation("exception", case, f"raised {type(e).__name__}: {e}")
            continue
        good = check_result(res, g, case, out, mins, k)
        res.outcomes["exact" if good else "wrong"] += 1
        res.extra["judgements_checked"] += len(out)


def _builder_judge(res):
    from y0.algorithm.conditional_independencies import get_conditional_independencies

    def judge(y, g, hist):
        mins = min_sep_sizes(g)
        for k in (None, 1):
            case = {"builder_ops": hist, "k": k}
            res.transitions += 1
            try:
                out = get_conditional_independencies(y, max_conditions=k)
            except Exception as e:  # noqa
                res.violation("exception", case, f"after growing one graph object by {hist}: raised {type(e).__name__}: {e}")
                return False
            if not check_result(res, g, case, out, mins, k):
                res.outcomes["wrong_after_mutation"] += 1
                return False
        res.outcomes["builder_step_ok"] += 1
        return True

    return judge


def work(shard, tier, seed):
    import os

    hs = int(os.environ.get("PYTHONHASHSEED", "0") or 0)
    res = Res()
    if shard[0] == "build":
        if hs == 0:
            res.states += run_sequences(shard[1], 3, _builder_judge(res))
        return res
    if shard[0] == "buildmv":
        if hs == 0:
            res.states += run_sequences(shard[1], 3, _builder_judge(res), names=NAMES3, moves=True)
        return res
    if shard[0] == "six":
        if hs == 0:
            for mask in range(shard[1], shard[2]):
                g = _dag6(mask)
                res.extra["six_node_dags_screened"] += 1
                if upstream_only(g):
                    explore_six(res, g)
        return res
    lo, hi = shard
    for g in _universe(tier)[lo:hi]:
        if tier == "quick" and hs != 0 and len(g.nodes) >= 4 and len(g.di) + len(g.bi) > 3:
            continue  # quick: other hash seeds revisit the graphs up to 3 nodes and the sparse four-node ones
        explore_graph(res, g)
    return res


def replay(case, clause=None):
    res = Res()
    if "builder_ops" in case:
        replay_sequence(case["builder_ops"], _builder_judge(res))
        return [v for v in res.violations if clause is None or v["clause"] == clause]
    g = G.from_json(case["graph"])
    if len(g.nodes) == 6 or (len(g.nodes) == 5 and len(g.di) > 5):
        explore_six(res, g, only=case)
        return [v for v in res.violations if clause is None or v["clause"] == clause]
    explore_graph(res, g, only=case)
    return [v for v in res.violations if clause is None or v["clause"] == clause]
