"""C15 Implied conditional independencies are enumerated exactly.

State space: graph x size limit k in {None, 0, .., n-2} x retention policy / enumeration variant.
Oracle: with the path-definition separation oracle compute, for every unordered pair, the minimum
size of a separating set.  The returned set must contain exactly one judgement for every pair whose
minimum is <= k (k = None: any), none for other pairs; each judgement must be a true separation,
canonical, and of minimum size.  k is the largest conditioning-set size investigated ("Longest
set of conditions to investigate" in the public docstring).
"""

from __future__ import annotations

from functools import lru_cache
import itertools as itt

from ..graphs import G, enum_L, enum_O, msep, subsets
from ..runner import Res
from ..y0util import V, snapshot, to_y0

TITLE = "Implied conditional independencies are enumerated exactly"
HASH_SEEDS = {"quick": [0, 1], "thorough": [0, 1, 2]}


@lru_cache(maxsize=None)
def _universe(tier):
    # five-node DAGs are needed for a pair that has both a one-node and a two-node separator of other nodes
    dags5 = [g for g in enum_O(5, max_edges=5) if not g.bi and len(g.di) >= 4]
    if tier == "quick":
        return [g for n in (1, 2, 3) for g in enum_L(n)] + list(enum_O(4)) + dags5
    return [g for n in (1, 2, 3, 4) for g in enum_L(n)] + list(enum_O(5, max_edges=4)) + [g for g in dags5 if len(g.di) == 5]


def shards(tier):
    n = len(_universe(tier))
    size = 32 if tier == "quick" else 64
    return [(i, min(i + size, n)) for i in range(0, n, size)]


def describe(tier):
    return {
        "bound": (
            "graphs: L(1..3) all labelled ADMGs + O(4) all name-ordered four-node ADMGs"
            if tier == "quick"
            else "graphs: L(1..4) all labelled ADMGs + O(5, <=4 edges)"
        )
        + " + name-ordered five-node DAGs with 4-5 edges; size limits k in {None, 0..n-2, n}; variants: default (topological) policy, len-lex policy via minimal(), "
        "return_all=True, len-lex policy with return_all on the graph renamed to names of unequal length; PYTHONHASHSEED in "
        + str(HASH_SEEDS[tier])
        + (" (seeds other than 0: graphs up to 3 nodes and four-node graphs up to 3 edges)" if tier == "quick" else ""),
        "rule": "state = (graph, k, variant); transition = one get_conditional_independencies / minimal(d_separations) call "
        "whose result set is compared pair by pair with minimum separating-set sizes from the path-definition oracle",
        "assumptions": [
            "size limit k is inclusive (sets of at most k nodes), as the public docstring states",
            "separation oracle: path definition on the latent-expanded DAG",
        ],
    }


def min_sep_sizes(g: G):
    out = {}
    for a, b in itt.combinations(sorted(g.nodes), 2):
        rest = [v for v in g.nodes if v not in (a, b)]
        best = None
        for c in subsets(rest):
            if msep(g, a, b, c):
                best = len(c)
                break
        out[(a, b)] = best
    return out


def check_result(res, g, case, judgements, mins, k):
    from y0.struct import DSeparationJudgement

    seen = {}
    ok = True
    for j in judgements:
        if not isinstance(j, DSeparationJudgement):
            res.violation("record", case, f"element {j!r} is not a judgement")
            return False
        pair = tuple(sorted((str(j.left), str(j.right))))
        cond = tuple(str(c) for c in j.conditions)
        if pair in seen:
            res.violation("one_per_pair", case, f"pair {pair} listed twice: {seen[pair]} and {cond}")
            ok = False
        seen[pair] = cond
        if (
            not j.separated
            or not j.is_canonical
            or (str(j.left), str(j.right)) != pair
            or tuple(sorted(cond)) != cond
            or len(set(cond)) != len(cond)
            or set(cond) & set(pair)
        ):
            res.violation("canonical", case, f"judgement {j!r} is not a canonical separation record")
            ok = False
        if pair not in mins:
            res.violation("record", case, f"judgement over unknown pair {pair}")
            ok = False
            continue
        if not msep(g, pair[0], pair[1], cond):
            res.violation("true_separation", case, f"{pair} are not separated by {cond}")
            ok = False
        elif mins[pair] is not None and len(cond) != mins[pair]:
            res.violation("minimum_size", case, f"{pair}: listed set {cond} has size {len(cond)}, minimum is {mins[pair]}")
            ok = False
        if k is not None and len(cond) > k:
            res.violation("size_limit", case, f"{pair}: conditioning set {cond} exceeds the limit {k}")
            ok = False
    for pair, m in mins.items():
        want = m is not None and (k is None or m <= k)
        if want and pair not in seen:
            res.violation("missing", case, f"pair {pair} is separable with {m} conditions (limit {k}) but is not listed")
            ok = False
        if not want and pair in seen and (m is None):
            pass  # already reported as not a true separation
    return ok


def explore_graph(res: Res, g: G, only=None):
    from y0.algorithm.conditional_independencies import d_separations, get_conditional_independencies, minimal

    yg = to_y0(g)
    before = snapshot(yg)
    mins = min_sep_sizes(g)
    n = len(g.nodes)
    ks = [None] + list(range(0, max(n - 1, 1))) + [n]
    # the same graph under names of unequal length: the built-in length/lexicographic policy must still prefer fewer
    # conditions, whatever the names look like
    long_names = {"A": "Aaaaaaa", "B": "Bb", "C": "C", "D": "Ddddd", "E": "Ee"}
    yl = to_y0(G(tuple(long_names[n] for n in g.nodes), tuple((long_names[a], long_names[b]) for a, b in g.di), tuple((long_names[a], long_names[b]) for a, b in g.bi)))
    back = {v: k for k, v in long_names.items()}

    def renamed(js):
        from y0.struct import DSeparationJudgement

        return {
            DSeparationJudgement.create(V(back[str(j.left)]), V(back[str(j.right)]), [V(back[str(c)]) for c in j.conditions], separated=j.separated)
            for j in js
        }

    variants = {
        "len_lex_all_long_names": lambda k: renamed(minimal(d_separations(yl, max_conditions=k, return_all=True))),
        "default": lambda k: get_conditional_independencies(yg, max_conditions=k),
        "len_lex": lambda k: minimal(d_separations(yg, max_conditions=k)),
        "return_all": lambda k: get_conditional_independencies(yg, max_conditions=k, return_all=True),
    }
    for k in ks:
        for name, fn in variants.items():
            case = {"graph": g.to_json(), "k": k, "variant": name}
            if only and (only.get("k"), only.get("variant")) != (k, name):
                continue
            res.states += 1
            res.transitions += 1
            try:
                out = fn(k)
            except Exception as e:  # noqa
                res.violation("exception", case, f"raised {type(e).__name__}: {e}")
                continue
            if not isinstance(out, set):
                res.violation("record", case, f"returned a {type(out).__name__}, not a set")
                out = set(out)
            good = check_result(res, g, case, out, mins, k)
            res.outcomes["exact" if good else "wrong"] += 1
            res.extra["judgements_checked"] += len(out)
            if len(res.samples) < 3 and len(out) >= 2 and k is not None:
                res.sample(dict(case, result=sorted(f"{j.left}_|_{j.right}|{','.join(map(str, j.conditions))}" for j in out)))
    if snapshot(yg) != before:
        res.violation("side_effect", {"graph": g.to_json()}, "the caller's graph was modified")


def work(shard, tier, seed):
    import os

    hs = int(os.environ.get("PYTHONHASHSEED", "0") or 0)
    lo, hi = shard
    res = Res()
    for g in _universe(tier)[lo:hi]:
        if tier == "quick" and hs != 0 and len(g.nodes) >= 4 and len(g.di) + len(g.bi) > 3:
            continue  # quick: other hash seeds revisit the graphs up to 3 nodes and the sparse four-node ones
        explore_graph(res, g)
    return res


def replay(case, clause=None):
    g = G.from_json(case["graph"])
    res = Res()
    explore_graph(res, g, only=case)
    return [v for v in res.violations if clause is None or v["clause"] == clause]
