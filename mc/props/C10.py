"""C10 Canonicalisation never changes what an expression means.

State space: every well-scoped expression reachable by the DSL exploration plan (mc.exprs).
Oracle 1: for every ordering, the value function of canonicalize(e, ordering) equals that of e at
every value assignment where e is defined (generic table worlds).
Oracle 2: expressions with the same canonical form (what canonical_expr_equal declares equal) must
have the same value function; equivalence classes are merged across all shards.
"""

from __future__ import annotations

import hashlib

from ..exprs import all_envs, ORDERINGS, PLANS, Explorer, State, case_of, contains_zero_factor, level, plan_shards, rebuild, struct_key
from ..runner import Res

TITLE = "Canonicalisation never changes what an expression means"
SIG_ENVS = all_envs(linked=True, plus=True)


def shards(tier):
    return plan_shards(tier, 8 if tier == "quick" else 64)


def describe(tier):
    parts = []
    for alpha, depth in PLANS[tier]:
        al, sts = level(alpha, depth)
        parts.append(f"{len(al)}-atom alphabet, all expressions up to {depth + 1} operations deep")
    return {
        "bound": "variables A, B, C with 2, 3, 2 values; "
        + "; ".join(parts)
        + "; operations: *, /, Sum, marginalize, conditional, simplify, contract, canonicalize, chain/fraction/bayes expansion and "
        "raw Product/Fraction/Sum constructors; orderings: "
        + ("every ordering of A, B, C and the default" if tier == "thorough" else "(A,B,C), (C,B,A) and the default")
        + "; every value assignment",
        "rule": "state = well-scoped expression (dedup by exact structure); transition = canonicalize(e, ordering) whose value "
        "function is compared with that of e; canonical forms are grouped over the whole state space and every group must "
        "have a single value function",
        "assumptions": [
            "well-scoped: every sum index occurs free in its summand, a distribution mentions a name at most once, no literal "
            "Zero inside a raw product, sum or denominator",
            "generic tables: one arbitrary positive joint per (population, intervention assignment)",
        ],
    }


def signature(ex, st, world):
    """Hash of the value function over the full environment list (None if undefined somewhere)."""
    keys = sorted(st.free, key=str)
    cache = {}
    vals = []
    for env in SIG_ENVS:  # one fixed environment list, so that signatures from different alphabets are comparable
        k = tuple(env.get(x) for x in keys)
        if k not in cache:
            cache[k] = st.value(env, world)
            if cache[k] is None:
                return None
        vals.append(cache[k])
    return hashlib.sha256(repr(vals).encode()).hexdigest()[:16]


def on_state(ex: Explorer, res: Res, st: State):
    from y0.mutate import canonicalize
    from y0.mutate.canonicalize_expr import canonical_expr_equal

    if st.err or not st.ws or contains_zero_factor(st.expr):
        res.outcomes["out_of_scope"] += 1
        return
    case = case_of(st, {"alpha": ex.alpha})
    ok = True
    canon_default = None
    # y0 re-sorts any supplied ordering by name, so quick uses three representatives and thorough all seven
    for o in (list(ORDERINGS) + [None]) if ex.full_orderings else [ORDERINGS[0], ORDERINGS[-1], None]:
        res.transitions += 1
        try:
            c = canonicalize(st.expr, o)
        except Exception as e:  # noqa
            res.violation("canonicalize_raised", dict(case, ordering=str(o)), f"canonicalize({st.expr}) raised {type(e).__name__}: {e}")
            res.outcomes["raised"] += 1
            return
        if o is None:
            canon_default = c
        cs = State(c, st.hist + [f"canonicalize({o})"])
        if cs.err:
            res.violation("meaning", dict(case, ordering=str(o)), f"canonical form {c} cannot be read: {cs.err}")
            return
        for world in ex.worlds:
            for env in ex.envs_for(st.free, cs.free):
                want = st.value(env, world)
                if want is None:
                    continue
                got = cs.value(env, world)
                if got != want:
                    res.violation(
                        "meaning",
                        dict(case, ordering=str(o), env={f"{n}{'' if s is None else ('+' if s else '-')}": v for (n, s), v in sorted(env.items(), key=str)}),
                        f"{st.expr} evaluates to {want}, its canonical form {c} evaluates to {got}",
                    )
                    res.outcomes["meaning_changed"] += 1
                    ok = False
                    break
            if not ok:
                break
        if not ok:
            return
    res.outcomes["meaning_preserved"] += 1
    # canonical equality classes
    sig = signature(ex, st, ex.worlds[0])
    if sig is not None and canon_default is not None:
        k = hashlib.sha256(repr(struct_key(canon_default)).encode()).hexdigest()[:20]
        g = res.groups.setdefault(k, {})
        if sig not in g:
            g[sig] = {"ops": st.hist, "expr": str(st.expr), "alpha": ex.alpha}
        if len(g) > 1:
            first = next(iter(g.values()))
            try:
                declared = canonical_expr_equal(st.expr, rebuild(first["ops"], first["alpha"]).expr)
            except Exception:  # noqa
                declared = None
            res.extra["declared_equal_checked"] += 1
            if declared is False:
                res.violation("harness", case, "grouping by canonical form disagrees with canonical_expr_equal")
    if len(res.samples) < 3 and len(st.hist) > 2:
        res.sample(dict(case, canonical=str(canon_default)))


def finalize(total: Res, tier):
    for k, g in sorted(total.groups.items()):
        if len(g) > 1:
            exs = list(g.values())
            total.violation(
                "canonical_equality",
                {"a": exs[0], "b": exs[1]},
                f"{exs[0]['expr']} and {exs[1]['expr']} have the same canonical form (canonical_expr_equal is True) but different "
                "value functions",
            )
    total.extra["canonical_classes"] = len(total.groups)
    total.extra["classes_with_several_members_checked"] = sum(1 for g in total.groups.values() if g)


def work(shard, tier, seed):
    alpha, depth, lo, hi = shard
    res = Res()
    ex = Explorer(alpha, depth, seed, tier=tier)
    ex.full_orderings = tier == "thorough"
    ex.run(res, lo, hi, on_state=on_state, on_transition=None)
    return res


def replay(case, clause=None):
    import os

    res = Res()
    if "a" in case and "b" in case:
        from y0.mutate.canonicalize_expr import canonical_expr_equal

        sa, sb = rebuild(case["a"]["ops"], case["a"]["alpha"]), rebuild(case["b"]["ops"], case["b"]["alpha"])
        ex = Explorer(case["a"]["alpha"], 0, int(os.environ.get("VERIF_SEED", "0") or 0), tier="thorough")
        ex.full_orderings = True
        if canonical_expr_equal(sa.expr, sb.expr) and signature(ex, sa, ex.worlds[0]) != signature(ex, sb, ex.worlds[0]):
            res.violation("canonical_equality", case, "declared canonically equal but value functions differ")
        return list(res.violations)
    alpha = case.get("alpha", "a24")
    ex = Explorer(alpha, 0, int(os.environ.get("VERIF_SEED", "0") or 0), tier="thorough")
    ex.full_orderings = True
    on_state(ex, res, rebuild(case["ops"], alpha))
    return list(res.violations)
