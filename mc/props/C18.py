"""C18 Counterfactual-graph construction preserves the event's probability.

State space: graph x every conjunction of up to m counterfactual event items (variable, consistent
subscript assignment incl. reflexive subscripts, value) x every base value assignment.
Oracle (functional witness SCM, exhaustive noise enumeration): P(relabelled event) == P(original);
'inconsistent' (None) only if the original has probability zero; the returned graph is acyclic, its
node set is exactly the ancestors (within it) of the relabelled event's variables, and every
relabelled event variable is a node.
"""

from __future__ import annotations

from functools import lru_cache
import itertools as itt

from ..builder import NAMES3, build_ops, replay_sequence, run_sequences
from ..ctf import events2, events3w, base_assignments, event_json, event_from_json, events, ground_items, node_to_item, to_event
from ..fscm import FSCM
from ..graphs import G, enum_L, enum_O, is_acyclic
from ..runner import Res
from ..y0util import snapshot, to_y0

TITLE = "Counterfactual-graph construction preserves the event's probability"


@lru_cache(maxsize=None)
def _universe(tier):
    if tier == "quick":
        return [g for n in (1, 2, 3) for g in enum_L(n)]
    return [g for n in (1, 2, 3) for g in enum_L(n)] + list(enum_O(4, max_edges=3))


def event_space(g: G, tier):
    n = len(g.nodes)
    if n <= 3:
        # three-world triples (three non-reflexive items with pairwise different non-empty intervention sets): a world that
        # is neither first nor last in any order of the worlds exists only here (seeded changes C07-f, C08-h)
        three = events3w(g.nodes) if n == 3 else ()
        if tier == "quick":
            return itt.chain(events2(g.nodes), three)
        return itt.chain(events(g.nodes, 2, 3, 2), (e for e in events2(g.nodes) if len(e) == 3), three)
    return events(g.nodes, 2, 2, 1)


def shards(tier):
    n = len(_universe(tier))
    idx = sorted(range(n), key=lambda i: -len(_universe(tier)[i].nodes))
    # builder phase: one live graph object grown edge by edge, the construction asked after every insertion
    return [(i, i + 1) for i in idx] + [("build", i) for i in range(len(build_ops(NAMES3)))]


def _builder_judge(res, seed):
    from .C07 import canonical_graph

    def judge(y, g, hist):
        cg = canonical_graph(g.nodes, g.di, g.bi)
        m = FSCM(cg, salt=f"f{seed}")
        before = len(res.violations)
        for items in events(cg.nodes, 2, 1, 1, reflexive=False):
            case = {"graph": cg.to_json(), "event": event_json(items), "builder_ops": hist}
            check_event(res, cg, y, m, items, case)
        if len(res.violations) > before:
            res.outcomes["wrong_after_mutation"] += 1
            return False
        res.outcomes["builder_step_ok"] += 1
        return True

    return judge


def describe(tier):
    return {
        "bound": (
            "graphs L(1..3) all labelled ADMGs (edges may run against the node insertion order); events: single items with up "
            "to 2 subscripts, pairs (up to 2 subscripts, up to 1 subscript), triples of one such item and two factual items"
            if tier == "quick"
            else "graphs L(1..3) all labelled ADMGs (single items with up to 3 subscripts, pairs with up to 2 each) + O(4, <=3 "
            "edges) (singles up to 2, pairs up to 1)"
        )
        + "; three-node graphs also with three-world triples (three non-reflexive all-'-' items with pairwise different non-empty "
        "intervention sets)"
        + "; subscripts may include the variable itself; values - and +; every base value assignment; plus every sequence of 3 "
        "edge insertions over 3 names on one live graph object, the construction asked for every non-reflexive event of up to "
        "two items (up to one subscript each) after every insertion",
        "rule": "state = (graph, event); transition = one make_counterfactual_graph call; the relabelled event's probability "
        "is compared with the original's by enumerating all exogenous settings of the functional witness SCM",
        "assumptions": ["binary functional witness SCM with hash-derived mechanisms stands in for 'all SCMs'"],
    }


def check_event(res: Res, g: G, yg, m: FSCM, items, case):
    from y0.algorithm.identify.cg import make_counterfactual_graph

    res.states += 1
    res.transitions += 1
    ev = to_event(items)
    ev0 = dict(ev)
    before = snapshot(yg)
    try:
        cf, new = make_counterfactual_graph(yg, ev)
    except Exception as e:  # noqa
        if any(v in dict(subs) for v, subs, _ in items):
            # the property does not promise a result for events that contain a self-intervened variable (ID* removes or
            # rejects them before building the graph); counted, not judged -- see DESIGN.md section 6
            res.outcomes["exception_on_reflexive_item"] += 1
            return
        res.violation("exception", case, f"make_counterfactual_graph raised {type(e).__name__}: {e}")
        res.outcomes["exception"] += 1
        return
    if snapshot(yg) != before or ev != ev0:
        res.violation("side_effect", case, "make_counterfactual_graph modified its inputs")
    truths = [m.prob_items(ground_items(items, a)) for a in base_assignments(g.nodes)]
    if new is None:
        res.outcomes["inconsistent"] += 1
        if any(t != 0 for t in truths):
            res.violation("inconsistent", case, f"reported inconsistent, but the event has probability {max(truths)} in the witness")
        return
    res.outcomes["relabelled"] += 1
    new_items = [node_to_item(k, v) for k, v in new.items()]
    for a, t in zip(base_assignments(g.nodes), truths):
        res.transitions += 1
        got = m.prob_items(ground_items(new_items, a))
        if got != t:
            res.violation(
                "probability",
                dict(case, base=a),
                f"relabelled event {new} has probability {got}, the original has {t}",
            )
            break
    nodes = set(cf.nodes())
    di = [(u, v) for u, v in cf.directed.edges()]
    if not is_acyclic(nodes, di):
        res.violation("graph", case, "counterfactual graph is not acyclic")
    missing = [k for k in new if k not in nodes]
    if missing:
        res.violation("graph", case, f"relabelled event variables {missing} are not nodes of the returned graph")
    else:
        anc = cf.ancestors_inclusive(set(new))
        if set(anc) != nodes:
            res.violation("graph", case, f"graph nodes {sorted(map(str, nodes))} != ancestors of the event {sorted(map(str, anc))}")


def explore_graph(res: Res, g: G, tier, seed, only=None):
    yg = to_y0(g)
    m = FSCM(g, salt=f"f{seed}")
    for items in event_space(g, tier) if only is None else [only]:
        case = {"graph": g.to_json(), "event": event_json(items)}
        if len(res.samples) < 3 and len(items) == 2 and items[0][1] and g.bi:
            res.sample(case)
        check_event(res, g, yg, m, items, case)


def work(shard, tier, seed):
    res = Res()
    if shard[0] == "build":
        res.states += run_sequences(shard[1], 3, _builder_judge(res, seed), names=NAMES3)
        return res
    lo, hi = shard
    for g in _universe(tier)[lo:hi]:
        explore_graph(res, g, tier, seed)
    return res


def replay(case, clause=None):
    import os

    res = Res()
    if "builder_ops" in case:
        replay_sequence(case["builder_ops"], _builder_judge(res, int(os.environ.get("VERIF_SEED", "0") or 0)))
        return [v for v in res.violations if (clause is None or v["clause"] == clause) and v["input"].get("event") == case.get("event")][:1]
    explore_graph(res, G.from_json(case["graph"]), "thorough", int(os.environ.get("VERIF_SEED", "0") or 0), only=event_from_json(case["event"]))
    return [v for v in res.violations if clause is None or v["clause"] == clause]
