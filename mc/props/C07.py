"""C07 ID* estimands equal the probability of the counterfactual event.

State space: graph x every conjunction of up to m counterfactual event items x every base value
assignment (which domain value is written '-N').
Oracle (functional witness SCM, exhaustive noise enumeration): the returned expression, read with the
event's own values for its outcome variables and literal values for + / - subscripts, equals the
probability of the conjunction; Zero() only if that probability is 0; anything other than an
expression or the 'unidentifiable' refusal is a violation; every term must be single-world.
"""

from __future__ import annotations

from functools import lru_cache
import itertools as itt

from ..ctf import events2, events3w, base_assignments, event_from_json, event_json, event_value_env, events, ground_items, to_event
from ..fscm import FSCM, FWorld
from ..graphs import G, enum_L, enum_O
from ..runner import Res, fkey_of
from ..semantics import Malformed, MultiWorld, Undefined, compile_expr
from ..y0util import V, snapshot, to_y0

TITLE = "ID* estimands equal the probability of the counterfactual event"


@lru_cache(maxsize=None)
def _universe(tier):
    if tier == "quick":
        return [g for n in (1, 2, 3) for g in enum_L(n)]
    return [g for n in (1, 2, 3) for g in enum_L(n)] + list(enum_O(4, max_edges=3))


def event_space(g: G, tier):
    n = len(g.nodes)
    if n <= 3:
        three = events3w(g.nodes) if n == 3 else ()
        if tier == "quick":
            return itt.chain(events2(g.nodes), three)
        return itt.chain(events(g.nodes, 2, 3, 2), (e for e in events2(g.nodes) if len(e) == 3), three)
    return events(g.nodes, 2, 2, 1)


BUILD_NAMES = ("A", "B", "C")


def build_ops():
    return [("d", u, v) for u in BUILD_NAMES for v in BUILD_NAMES if u != v] + [("b", u, v) for u, v in itt.combinations(BUILD_NAMES, 2)]


@lru_cache(maxsize=None)
def cases5w(tier):
    """Five-node three-world cases (graph, event): three distinct outcome variables, each observed in its own world --
    {x}, {y}, {x, y} in every assignment, x and y the two remaining nodes -- and each a child of exactly the variables its
    world intervenes on (so no intervention is irrelevant and no world collapses); one or two (thorough: also three)
    bidirected edges among the outcomes.  Outcome and intervention variables are disjoint, so a world that lies between two
    others is not kept alive by the event itself (seeded change C07-g)."""
    names = ("A", "B", "C", "D", "E")
    out = []
    for outs in itt.combinations(names, 3):
        x, y = [n for n in names if n not in outs]
        worlds = [((x, False),), ((y, False),), ((x, False), (y, False))]
        pairs = list(itt.combinations(outs, 2))
        for perm in itt.permutations(worlds):
            items = tuple((v, w, False) for v, w in zip(outs, perm))
            di = [(n, v) for v, w, _ in items for n, _ in w]
            for k in (1, 2) if tier == "quick" else (1, 2, 3):
                for bi in itt.combinations(pairs, k):
                    out.append((canonical_graph(names, di, bi), items))
    # six nodes: three single-variable worlds {x}, {y}, {z}, each outcome the child of its own world's variable
    names = ("A", "B", "C", "D", "E", "F")
    for outs in itt.combinations(names, 3):
        rest = [n for n in names if n not in outs]
        pairs = list(itt.combinations(outs, 2))
        for perm in itt.permutations(rest):
            items = tuple((v, ((x, False),), False) for v, x in zip(outs, perm))
            di = [(x, v) for v, x in zip(outs, perm)]
            for k in (1, 2):
                for bi in itt.combinations(pairs, k):
                    out.append((canonical_graph(names, di, bi), items))
    return out


def explore_5w(res: Res, lo, hi, tier, seed, only=None):
    for g, items in cases5w(tier)[lo:hi]:
        if only is not None and (g.to_json(), event_json(items)) != only:
            continue
        yg = to_y0(g)
        m = TwoWitness(FSCM(g, salt=f"f{seed}"), FSCM(g, salt=f"g{seed}"))
        check_event(res, g, yg, m, m, items, {"graph": g.to_json(), "event": event_json(items), "five_node_worlds": True})


def shards(tier):
    n = len(_universe(tier))
    idx = sorted(range(n), key=lambda i: -len(_universe(tier)[i].nodes))
    n5 = len(cases5w(tier))
    return [("w5", i, min(i + 16, n5)) for i in range(0, n5, 16)] + [(i, i + 1) for i in idx] + [("build", i) for i in range(len(build_ops()))]


def canonical_graph(nodes, di, bi) -> G:
    """The reference graph in the same presentation as the enumerated universes (so that input identities coincide)."""
    nodes = tuple(sorted(nodes))
    di = tuple(sorted(di, key=lambda e: (min(e), max(e))))
    bi = tuple(sorted(tuple(sorted(e)) for e in bi))
    return G(nodes, di, bi)


def explore_builder(res: Res, first, tier, seed):
    """Every sequence of 3 edge insertions on ONE live graph object, nodes appearing as the edges mention them; after
    every insertion ID* is asked for every all-'-' event of up to two items (up to one subscript each) on that object."""
    from y0.graph import NxMixedGraph

    from ..graphs import is_acyclic

    ops = build_ops()
    for tail in itt.product(range(len(ops)), repeat=2):
        seq = (first,) + tail
        y = NxMixedGraph()
        nodes, di, bi, hist = [], [], [], []
        for k in seq:
            kind, u, v = ops[k]
            hist.append([kind, u, v])
            for n in (u, v):
                if n not in nodes:
                    nodes.append(n)
            if kind == "d":
                if (u, v) in di or not is_acyclic(nodes, di + [(u, v)]):
                    break
                di.append((u, v))
                y.add_directed_edge(V(u), V(v))
            else:
                if tuple(sorted((u, v))) in bi:
                    break
                bi.append(tuple(sorted((u, v))))
                y.add_undirected_edge(V(u), V(v))
            g = canonical_graph(nodes, di, bi)
            m = TwoWitness(FSCM(g, salt=f"f{seed}"), FSCM(g, salt=f"g{seed}"))
            before = len(res.violations)
            for items in events(g.nodes, 2, 1, 1):
                if any(star or any(s for _, s in subs) for _, subs, star in items):
                    continue  # all-'-' events only
                case = {"graph": g.to_json(), "event": event_json(items), "builder_ops": list(hist)}
                check_event(res, g, y, m, m, items, case)
            if len(res.violations) > before:
                break


def describe(tier):
    return {
        "bound": (
            "graphs L(1..3) all labelled ADMGs (edges may run against the node insertion order); events: single items with up "
            "to 2 subscripts, pairs (up to 2 subscripts, up to 1 subscript), triples of one such item and two factual items"
            if tier == "quick"
            else "graphs L(1..3) all labelled ADMGs (single items with up to 3 subscripts, pairs with up to 2 each) + O(4, <=3 "
            "edges) (singles up to 2, pairs up to 1)"
        )
        + "; subscripts may include the variable itself; values - and +; every base value assignment; plus every sequence of 3 "
        "edge insertions on one live graph object with ID* asked for all all-'-' events after every insertion; five- and six-node three-world cases: three outcome variables, each observed in its own world and the child of exactly the variables that world intervenes on ({x}, {y}, {x,y} on five nodes; {x}, {y}, {z} on six), one or two bidirected edges among the outcomes, every assignment of worlds to outcomes",
        "rule": "state = (graph, event); transition = one id_star call whose result is evaluated on the functional witness "
        "SCM and compared with the probability of the conjunction obtained by enumerating all exogenous settings",
        "assumptions": [
            "binary functional witness SCM with hash-derived mechanisms stands in for 'all SCMs'",
            "reading of the result: un-starred N = the event's own value of N, -N / +N literal; Sum[N] binds N, and also the "
            "subscript -N unless N is a variable of the event (whose subscripts stay literal)",
            "events that give one base variable two different outcome values in two worlds cannot be read by an un-starred "
            "variable; a non-zero result for them is counted as unevaluable, not judged",
        ],
    }


def readings_of(est, card):
    """Admissible readings of a result expression: list of (label, fn, free).

    Standard reading: Sum[N] binds N and the subscript -N.  For a quotient e / Sum[R](e') (the shape IDC* produces by
    normalising) a second reading is admitted in which the normalising sum ranges over the plain variables R only and
    leaves literal subscripts -N of the query alone.  A result is accepted if one reading agrees with the truth at every
    assignment (the weakest reading under which ID* line 6 and the IDC* normalisation can both be right).
    """
    from y0.dsl import Fraction as YFraction
    from y0.dsl import Sum as YSum

    out = []
    fn, free = compile_expr(est, card)
    out.append(("standard", fn, free))
    if isinstance(est, YFraction) and isinstance(est.denominator, YSum):
        fnum, free_n = compile_expr(est.numerator, card)
        finner, free_i = compile_expr(est.denominator.expression, card)
        names = sorted(r.name for r in est.denominator.ranges)
        import itertools as itt

        def f_alt(env, world, fnum=fnum, finner=finner, names=names):
            den = 0
            env2 = dict(env)
            for vals in itt.product(*[range(card[n]) for n in names]):
                for n, v in zip(names, vals):
                    env2[(n, None)] = v
                den = den + finner(env2, world)
            if den == 0:
                raise Undefined("zero denominator")
            return fnum(env, world) / den

        out.append(("literal_normalisation", f_alt, free_n | {k for k in free_i if not (k[1] is None and k[0] in names)}))
    return out


def judge_expression(res, est, items, g, m, world, case, clause_prefix="", finding=None, fkey=None, truth_fn=None, env_fn=None):
    """Compare est with P(items) (or truth_fn(a)) for every base assignment. Returns outcome label."""
    import itertools as itt

    try:
        readings = readings_of(est, m.card)
    except Malformed as e:
        res.violation(clause_prefix + "malformed", case, f"{est}: {e}", fkey=fkey)
        return "malformed"
    event_names = {v for v, _, _ in items}
    failure = None
    for label, fn, free in readings:
        env0, _ = (env_fn or event_value_env)(items, next(iter(base_assignments(g.nodes))))
        stray = sorted({n for n, s in free if s is None and n not in event_names and (n, None) not in env0})
        bad = None
        for a in base_assignments(g.nodes):
            env, ambiguous = (env_fn or event_value_env)(items, a)
            need_plain = {n for n, s in free if s is None}
            if need_plain & ambiguous:
                return "unevaluable"
            want = m.prob_items(ground_items(items, a)) if truth_fn is None else truth_fn(a)
            if want is None:
                continue
            # a free outcome variable that the event does not mention has no value: the result must not depend on it
            for svals in itt.product((0, 1), repeat=len(stray)):
                env2 = dict(env)
                for n, x in zip(stray, svals):
                    env2[(n, None)] = x
                res.transitions += 1
                try:
                    got = fn(env2, world)
                except MultiWorld as e:
                    res.violation(clause_prefix + "multi_world", dict(case, base=a), f"{est}: {e}", fkey=fkey)
                    return "multi_world"
                except (Undefined, Malformed, KeyError) as e:
                    got = f"{type(e).__name__}: {e}"
                if not isinstance(got, (Pair, str)):
                    got = Pair((got, got))  # no probability term (One, Zero): same value on both witnesses
                if got != want:
                    bad = (a, dict(zip(stray, svals)), got, want, stray)
                    break
            if bad:
                break
        if bad is None:
            return "correct" if label == "standard" else "correct_" + label
        failure = failure or bad
    a, sv, got, want, stray = failure
    res.violation(
        clause_prefix + "value",
        dict(case, base=a, stray=sv),
        f"result {est} evaluates to {got}, the event has probability {want}"
        + (f"; free outcome variables not in the event: {stray}" if stray else ""),
        finding=finding or ("non_event_variable_free" if stray else "other_pinned_behaviour"),
        fkey=fkey,
    )
    return "wrong_value"


class TwoWitness:
    """Two independent functional witnesses evaluated side by side (values are pairs), so that a wrong formula that
    happens to coincide with the truth on one witness is still seen."""

    def __init__(self, m1, m2):
        self.ms = (m1, m2)
        self.card = m1.card

    def prob_items(self, items):
        return tuple(m.prob_items(items) for m in self.ms)

    def joint(self, pop, items):
        return Pair(FWorld({None: m}).joint(pop, items) for m in self.ms)


class Pair(tuple):
    """Component-wise arithmetic on a pair of rationals."""

    def __new__(cls, it):
        return super().__new__(cls, it)

    def _bin(self, o, f):
        if not isinstance(o, Pair):
            o = Pair((o, o))
        return Pair(f(a, b) for a, b in zip(self, o))

    def __mul__(self, o):
        return self._bin(o, lambda a, b: a * b)

    __rmul__ = __mul__

    def __add__(self, o):
        return self._bin(o, lambda a, b: a + b)

    __radd__ = __add__

    def __truediv__(self, o):
        if not isinstance(o, Pair):
            o = Pair((o, o))
        if any(b == 0 for b in o):
            from ..semantics import Undefined

            raise Undefined("zero denominator")
        return self._bin(o, lambda a, b: a / b)

    def __rtruediv__(self, o):
        return Pair((o, o)) / self

    def __eq__(self, o):
        if isinstance(o, Pair) or isinstance(o, tuple):
            return tuple(self) == tuple(o)
        return all(a == o for a in self)

    def __ne__(self, o):
        return not self.__eq__(o)

    __hash__ = tuple.__hash__


TRIGGERS = set()
_INSTALLED = []


def install_probes():
    """Observe (never alter) the two call sites behind the recorded ID* findings.

    get_events_of_district() turns the Markov pillow of a district into intervention subscripts.  Probe K1 fires when a
    pillow node is held at a '+' value (by the event or by its own intervention) although the conversion writes '-';
    probe K2 fires when two nodes of one district share their base variable, so that the returned dictionary has fewer
    entries than the district.  If the function is not found, the coarse input predicates are used instead.
    """
    if _INSTALLED:
        return _INSTALLED[0]
    import y0.algorithm.identify.id_star as mod
    from y0.dsl import CounterfactualVariable

    orig = getattr(mod, "get_events_of_district", None)
    if orig is None:
        _INSTALLED.append(False)
        return False

    def probe(graph, district, event):
        try:
            pillow = graph.get_markov_pillow(district)
            for node in pillow:
                if node in event:
                    if event[node].star:
                        TRIGGERS.add("K1")
                elif isinstance(node, CounterfactualVariable):
                    for i in node.interventions:
                        if i.name == node.name and i.star:
                            TRIGGERS.add("K1")
            if len({n.get_base() for n in district}) < len(set(district)):
                TRIGGERS.add("K2")
        except Exception:  # noqa
            pass
        return orig(graph, district, event)

    mod.get_events_of_district = probe
    _INSTALLED.append(True)
    return True


def classify(items, triggers, probes_ok):
    """Name of the known-finding class this input belongs to, or None."""
    has_plus = any(star or any(s for _, s in subs) for _, subs, star in items)
    bases = [v for v, _, _ in items]
    if probes_ok:
        if "K2" in triggers:
            return "district_key_collision"
        if "K1" in triggers:
            return "pillow_value_lost"
        return None
    if len(set(bases)) < len(bases):
        return "district_key_collision"
    if has_plus:
        return "pillow_value_lost"
    return None


def check_event(res: Res, g: G, yg, m: FSCM, world, items, case):
    from y0.algorithm.identify import Unidentifiable
    from y0.algorithm.identify.id_star import id_star
    from y0.dsl import Expression, Zero

    res.states += 1
    res.transitions += 1
    ev = to_event(items)
    ev0 = dict(ev)
    before = snapshot(yg)
    probes_ok = install_probes()
    TRIGGERS.clear()
    try:
        est = id_star(yg, ev)
    except Unidentifiable:
        res.outcomes["unidentifiable"] += 1
        return
    except Exception as e:  # noqa
        res.outcomes[f"exception:{type(e).__name__}"] += 1
        res.violation("total", case, f"id_star raised {type(e).__name__}: {e}")
        return
    if snapshot(yg) != before or ev != ev0:
        res.violation("side_effect", case, "id_star modified its inputs")
    if not isinstance(est, Expression):
        res.violation("total", case, f"id_star returned {type(est).__name__}")
        return
    if isinstance(est, Zero):
        truths = [m.prob_items(ground_items(items, a)) for a in base_assignments(g.nodes)]
        if any(t != (0, 0) for t in truths):
            res.violation(
                "zero",
                case,
                f"returned Zero() but the event has probability {max(truths)} in the witness",
                finding=classify(items, set(TRIGGERS), probes_ok),
                fkey=fkey_of("C07", case["graph"], case["event"]),
            )
            res.outcomes["wrong_zero"] += 1
        else:
            res.outcomes["zero_correct"] += 1
        return
    out = judge_expression(
        res, est, items, g, m, world, case, finding=classify(items, set(TRIGGERS), probes_ok), fkey=fkey_of("C07", case["graph"], case["event"])
    )
    res.outcomes["estimand_" + out] += 1


def explore_graph(res: Res, g: G, tier, seed, only=None):
    yg = to_y0(g)
    m = TwoWitness(FSCM(g, salt=f"f{seed}"), FSCM(g, salt=f"g{seed}"))
    world = m
    for items in event_space(g, tier) if only is None else [only]:
        case = {"graph": g.to_json(), "event": event_json(items)}
        if len(res.samples) < 3 and len(items) == 2 and items[0][1] and g.bi:
            res.sample(case)
        check_event(res, g, yg, m, world, items, case)


def work(shard, tier, seed):
    res = Res()
    if shard[0] == "build":
        explore_builder(res, shard[1], tier, seed)
        return res
    if shard[0] == "w5":
        explore_5w(res, shard[1], shard[2], tier, seed)
        return res
    lo, hi = shard
    for g in _universe(tier)[lo:hi]:
        explore_graph(res, g, tier, seed)
    return res


def replay(case, clause=None):
    import os

    res = Res()
    if "builder_ops" in case:
        ops = build_ops()
        explore_builder(res, ops.index(tuple(case["builder_ops"][0])), "quick", int(os.environ.get("VERIF_SEED", "0") or 0))
        return [v for v in res.violations if v["input"].get("builder_ops") == case["builder_ops"]][:1]
    explore_graph(res, G.from_json(case["graph"]), "thorough", int(os.environ.get("VERIF_SEED", "0") or 0), only=event_from_json(case["event"]))
    return [v for v in res.violations if clause is None or v["clause"] == clause]
