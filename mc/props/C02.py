"""C02 ID verdicts are total, complete and side-effect free.

State space: graph x (X, Y) disjoint non-empty, no numeric evaluation (so a larger bound than C01).
Oracle: outcome is an Expression or the 'unidentifiable' refusal, nothing else; refusal iff the
Tian-Pearl closure oracle (cross-checked with the brute-force hedge search in mc.selftest) says
not identifiable; caller's graph and query sets unchanged; both public entry points agree.
"""

from __future__ import annotations

from functools import lru_cache

from ..builder import NAMES3, build_ops, replay_sequence, run_sequences
from ..graphs import G, disjoint_pairs, enum_L, enum_O, identifiable_hedge, identifiable_tp, line4_queries
from ..runner import Res
from ..y0util import V, snapshot, to_y0

TITLE = "ID verdicts are total, complete and side-effect free"


@lru_cache(maxsize=None)
def _universe(tier):
    if tier == "quick":
        o4 = list(enum_O(4))
        seen = set(o4)
        return [g for n in (1, 2, 3) for g in enum_L(n)] + o4 + [g for g in enum_L(4, max_edges=4) if g not in seen]
    return [g for n in (1, 2, 3, 4) for g in enum_L(n)] + list(enum_O(5, max_edges=6))


@lru_cache(maxsize=None)
def _universe_l4(tier):
    """Five-node name-ordered ADMGs explored on the line-4 slice of queries only (mc.graphs.line4_queries)."""
    return [g for g in enum_O(5, max_edges=8 if tier == "quick" else 9) if len(g.di) + len(g.bi) >= 3]


def shards(tier):
    n = len(_universe(tier))
    size = 64 if tier == "quick" else 256
    n4 = len(_universe_l4(tier))
    out = [(i, min(i + size, n)) for i in range(0, n, size)] + [("l4", i, min(i + 4096, n4)) for i in range(0, n4, 4096)]
    # builder phase: one live graph object edited in place (insertions and count-preserving edge moves), queried after every step
    return out + [("build", i) for i in range(len(build_ops(NAMES3)))]


def describe(tier):
    return {
        "bound": (
            "graphs: L(1..3) all labelled ADMGs + O(4) all name-ordered four-node ADMGs + L(4, <=4 edges)"
            if tier == "quick"
            else "graphs: L(1..4) all labelled ADMGs + O(5, <=6 edges) (60 460 five-node ADMGs)"
        )
        + "; every ordered pair of disjoint non-empty X, Y; plus five-node name-ordered ADMGs with <="
        + ("8" if tier == "quick" else "9")
        + " edges on the line-4 slice of queries (An(Y)=V, line 3 adds nothing, G minus X splits into districts of which at least "
        "two are proper parts of districts of G: products of several line-7 results; identifiable queries only); entry points identify_outcomes and identify(Identification); graphs up "
        "to 3 nodes also as networkx graphs over string node names; builder sequences: every sequence of 3 steps over 3 names on one "
        "live graph object, a step being an edge insertion or an edge move (one edge removed from the underlying networkx graph and "
        "another of the same kind inserted: node and edge counts unchanged), every query through both entry points after every step",
        "rule": "state = (graph, X, Y); transition = one ID call compared with the identifiability oracle "
        "(Tian-Pearl closure; for n<=4 also the brute-force hedge search) and with input snapshots",
        "assumptions": [
            "identifiability oracle: P(y|do x) identifiable iff every district of G[An(Y) in G minus X] passes the "
            "Tian-Pearl IDENTIFY fix-point; equals 'no hedge' (Shpitser-Pearl completeness), cross-checked by brute force",
        ],
    }


def check_query(res: Res, g: G, yg, x, y, case, hedge):
    from y0.algorithm.identify import Identification, Query, Unidentifiable, identify, identify_outcomes
    from y0.dsl import Expression

    res.states += 1
    res.transitions += 2
    xs, ys = {V(n) for n in x}, {V(n) for n in y}
    xs0, ys0 = set(xs), set(ys)
    before = snapshot(yg)
    want = identifiable_tp(g, x, y)
    if hedge:
        if identifiable_hedge(g, x, y) != want:
            res.violation("harness", case, "the two identifiability oracles disagree")
    try:
        est = identify_outcomes(yg, treatments=xs, outcomes=ys)
        out = "none" if est is None else "estimand"
        if est is not None and not isinstance(est, Expression):
            res.violation("total", case, f"identify_outcomes returned {type(est).__name__}")
    except Exception as e:  # noqa
        out = f"exception:{type(e).__name__}"
        res.violation("total", case, f"identify_outcomes raised {type(e).__name__}: {e}")
    res.outcomes[out] += 1
    if out == "estimand" and not want:
        res.violation("complete", case, f"returned {est} although a hedge exists (not identifiable)")
    if out == "none" and want:
        res.violation("complete", case, "refused although the effect is identifiable")
    if snapshot(yg) != before:
        res.violation("side_effect", case, "identify_outcomes modified the caller's graph")
    if xs != xs0 or ys != ys0:
        res.violation("side_effect", case, "identify_outcomes modified the caller's query sets")
    # second entry point
    q = Query(outcomes=set(ys0), treatments=set(xs0))
    ident = Identification(query=q, graph=yg)
    g_before = snapshot(ident.graph)
    e_before = ident.estimand
    try:
        est2 = identify(ident)
        out2 = "estimand"
    except Unidentifiable:
        est2 = None
        out2 = "none"
    except Exception as e:  # noqa
        out2 = f"exception:{type(e).__name__}"
        if not out.startswith("exception"):
            res.violation("total", case, f"identify(Identification) raised {type(e).__name__}: {e}")
    if out2 != out:
        res.violation("entry_points", case, f"identify_outcomes -> {out}, identify(Identification) -> {out2}")
    elif out == "estimand" and est2 != est:
        res.violation("entry_points", case, f"estimands differ: {est} vs {est2}")
    if (
        q.outcomes != ys0
        or q.treatments != xs0
        or q.conditions != set()
        or snapshot(ident.graph) != g_before
        or ident.estimand != e_before
        or snapshot(yg) != before
    ):
        res.violation("side_effect", case, "identify() modified its Identification/Query/graph")


def check_string_graph(res: Res, g: G):
    """The same graph given as networkx graphs over *string* node names (a form Identification accepts and converts):
    verdicts must agree with the oracle and the caller's networkx graphs must keep their string nodes and edges."""
    import networkx as nx
    from y0.algorithm.identify import identify_outcomes
    from y0.graph import NxMixedGraph

    def build():
        d, u = nx.DiGraph(), nx.Graph()
        d.add_nodes_from(g.nodes)
        u.add_nodes_from(g.nodes)
        d.add_edges_from(g.di)
        u.add_edges_from(g.bi)
        return NxMixedGraph(directed=d, undirected=u)

    def snap(y):
        return (tuple(map(repr, y.directed.nodes())), tuple(map(repr, y.directed.edges())), tuple(map(repr, y.undirected.nodes())), tuple(map(repr, y.undirected.edges())))

    ys = build()
    before = snap(ys)
    for x, y in disjoint_pairs(g.nodes):
        res.transitions += 1
        case = {"graph": g.to_json(), "X": list(x), "Y": list(y), "string_nodes": True}
        try:
            est = identify_outcomes(ys, treatments={V(n) for n in x}, outcomes={V(n) for n in y})
            out = est is not None
        except Exception as e:  # noqa
            res.violation("total", case, f"identify_outcomes on a string-node graph raised {type(e).__name__}: {e}")
            continue
        if out != identifiable_tp(g, x, y):
            res.violation("complete", case, f"string-node graph: identified={out}, oracle={identifiable_tp(g, x, y)}")
        if snap(ys) != before:
            res.violation("side_effect", case, "identify_outcomes changed the caller's string-node networkx graphs")
            return
    res.outcomes["string_graph_ok"] += 1


def explore_graph(res: Res, g: G, only=None, tier="thorough", mode="full"):
    if mode == "l4":
        qs = [(x, y) for x, y in line4_queries(g) if identifiable_tp(g, x, y)]
        if not qs:
            return
        yg = to_y0(g)
        for x, y in qs:
            check_query(res, g, yg, x, y, {"graph": g.to_json(), "X": list(x), "Y": list(y)}, False)
        return
    yg = to_y0(g)
    if only is None and len(g.nodes) <= 3:
        check_string_graph(res, g)
    hedge = len(g.nodes) <= 4
    for x, y in disjoint_pairs(g.nodes):
        if only and (list(x), list(y)) != only:
            continue
        case = {"graph": g.to_json(), "X": list(x), "Y": list(y)}
        if len(res.samples) < 3 and len(g.nodes) >= 3 and g.bi and len(g.di) >= 2:
            res.sample(case)
        check_query(res, g, yg, x, y, case, hedge)


def _builder_judge(res):
    def judge(y, g, hist):
        for x, yy in disjoint_pairs(g.nodes):
            check_query(res, g, y, x, yy, {"graph": g.to_json(), "X": list(x), "Y": list(yy), "builder_ops": hist}, False)
        res.outcomes["builder_step"] += 1
        return True

    return judge


def work(shard, tier, seed):
    res = Res()
    if shard[0] == "build":
        run_sequences(shard[1], 3, _builder_judge(res), names=NAMES3, moves=True)
        return res
    if shard[0] == "l4":
        for g in _universe_l4(tier)[shard[1] : shard[2]]:
            explore_graph(res, g, tier=tier, mode="l4")
        return res
    lo, hi = shard
    for g in _universe(tier)[lo:hi]:
        explore_graph(res, g, tier=tier)
    return res


def replay(case, clause=None):
    g = G.from_json(case["graph"])
    res = Res()
    if "builder_ops" in case:
        replay_sequence(case["builder_ops"], _builder_judge(res))
        return [v for v in res.violations if v["input"].get("builder_ops") == case["builder_ops"] and (v["input"]["X"], v["input"]["Y"]) == (case["X"], case["Y"]) and (clause is None or v["clause"] == clause)][:1]
    if case.get("string_nodes"):
        check_string_graph(res, g)
        return [v for v in res.violations if clause is None or v["clause"] == clause]
    explore_graph(res, g, only=[case["X"], case["Y"]])
    return [v for v in res.violations if clause is None or v["clause"] == clause]
