"""C17 Tian-Pearl c-factor identification returns the true c-factor.

State space: graph x every linear extension (topological order) x every district T x every
non-empty C inside T whose induced subgraph is a single district x every value assignment; plus
every ancestral set A x every district of G[A] for the c-factor routines.
Oracle: Q[S](v) = P(s | do(v minus s)) on the witness SCM by truncated factorisation.
"""

from __future__ import annotations

import itertools as itt
from functools import lru_cache

from ..graphs import (
    G,
    ancestors_inc,
    districts,
    enum_L,
    enum_O,
    identify_cfactor_ok,
    subgraph,
    subsets,
    topological_orders,
)
from ..runner import Res
from ..scm import SCM, World
from ..semantics import Malformed, MultiWorld, Undefined, compile_expr, envs
from ..y0util import V, snapshot, to_y0

TITLE = "Tian-Pearl c-factor identification returns the true c-factor"


@lru_cache(maxsize=None)
def _universe(tier):
    if tier == "quick":
        return [g for n in (1, 2, 3) for g in enum_L(n)] + list(enum_O(4, max_edges=4))
    o4 = list(enum_O(4))
    seen = set(o4)
    return [g for n in (1, 2, 3) for g in enum_L(n)] + o4 + [g for g in enum_L(4, max_edges=4) if g not in seen]


def shards(tier):
    n = len(_universe(tier))
    size = 16 if tier == "quick" else 32
    return [(i, min(i + size, n)) for i in range(0, n, size)]


def describe(tier):
    return {
        "bound": (
            "graphs: L(1..3) all labelled ADMGs + O(4, <=4 edges)"
            if tier == "quick"
            else "graphs: L(1..3) + O(4) all name-ordered four-node ADMGs + L(4, <=4 edges)"
        )
        + "; every linear extension as topological order; every district T; every non-empty C in T with G[C] one district; "
        "Q[T] supplied as computed by compute_c_factor from P(V) / from a population-tagged joint, as the hand-written Lemma-1 "
        "product, and (when V minus T precedes T) as the plain or population-tagged conditional P(T | V minus T); every ancestral set "
        "for the c-factor routines (Lemma 1 from P(A), Lemma 4 from Sum P(V) and from P(A) written as a chain-rule product in every order of A"
        + (", first and last linear extension only, chain-rule products under the first" if tier == "quick" else "")
        + "); binary + ternary witness; every assignment",
        "rule": "state = (graph, topological order, T, C); transition = one identify_district_variables / compute_c_factor "
        "call whose result is evaluated on the witness SCM and compared with P(c | do(v minus c))",
        "assumptions": [
            "generic positive rational witness SCMs stand in for 'all SCMs'",
            "failure (None) is additionally required to coincide with the Tian-Pearl fix-point reaching A = T",
        ],
    }


def q_truth(m: SCM, s, env):
    do = frozenset((n, env[(n, None)]) for n in m.order if n not in s)
    return m.prob(do, frozenset((n, env[(n, None)]) for n in s))


def eval_q(res, expr, s, models, case, clause, what):
    """Compare expr with Q[s] on every model and assignment. Returns True if equal everywhere."""
    for label, m in models:
        try:
            fn, free = compile_expr(expr, m.card)
        except Malformed as e:
            res.violation(clause, dict(case, profile=label), f"{what} = {expr}: {e}")
            return False
        world = World({None: m, "π1": m})
        for env in envs(m.card, {(n, None) for n in m.order}):
            res.transitions += 1
            want = q_truth(m, s, env)
            try:
                got = fn(env, world)
            except (Undefined, MultiWorld, Malformed, KeyError) as e:
                got = f"{type(e).__name__}: {e}"
            if got != want:
                res.violation(
                    clause,
                    dict(case, profile=label, env={n: env[(n, None)] for n in m.order}),
                    f"{what} = {expr} evaluates to {got}, Q[{sorted(s)}] = {want}",
                )
                return False
    return True


def explore_graph(res: Res, g: G, tier, seed, only=None):
    from y0.algorithm.tian_id import compute_c_factor, identify_district_variables
    from y0.dsl import Distribution, P, PopulationProbability, Product, Sum, Variable

    POP = Variable("π1")

    yg = to_y0(g)
    before = snapshot(yg)
    tern = g.nodes[0] if (len(g.di) + len(g.bi)) % 2 else g.nodes[-1]
    models = [("W2", SCM(g, salt=f"s{seed}")), ("W3", SCM(g, card={tern: 3}, salt=f"s{seed}"))]
    dists = sorted(sorted(d) for d in districts(g))
    anc_sets = [a for a in subsets(g.nodes, 1) if set(ancestors_inc(g, a)) == set(a)]
    topos = list(topological_orders(g))
    for ti, topo in enumerate(topos):
        vt = [V(n) for n in topo]
        if only and list(topo) != only.get("topo", list(topo)):
            continue
        joint = P(*vt)
        for t in dists:
            case = {"graph": g.to_json(), "topo": list(topo), "T": t}
            res.states += 1
            res.transitions += 1
            try:
                qt = compute_c_factor(
                    district=[V(n) for n in t], subgraph_variables=set(vt), subgraph_probability=joint, graph_topo=vt
                )
            except Exception as e:  # noqa
                res.violation("c_factor", case, f"compute_c_factor raised {type(e).__name__}: {e}")
                continue
            ok = eval_q(res, qt, t, models, case, "c_factor", "compute_c_factor(T from P(V))")
            res.outcomes["c_factor_ok" if ok else "c_factor_wrong"] += 1
            # hand-written Lemma 1 product as an alternative input
            lemma1 = Product.safe(P(V(n) | vt[: topo.index(n)]) if topo.index(n) else P(V(n)) for n in t)
            inputs = [("lemma1", lemma1)] + ([("computed", qt)] if ok and qt != lemma1 else [])
            others = [n for n in topo if n not in t]
            if others and list(topo[: len(others)]) == others:
                # V minus T precedes T: the Lemma-1 product telescopes to the plain conditional P(T | V minus T)
                tv, ov = [V(n) for n in topo if n in t], [V(n) for n in others]
                inputs.append(("conditional", P(Distribution(children=tuple(tv), parents=tuple(ov)))))
                inputs.append(
                    ("pop_conditional", PopulationProbability(population=POP, distribution=Distribution(children=tuple(tv), parents=tuple(ov))))
                )
            try:
                qt_pop = compute_c_factor(
                    district=[V(n) for n in t],
                    subgraph_variables=set(vt),
                    subgraph_probability=PopulationProbability(population=POP, distribution=joint.distribution),
                    graph_topo=vt,
                )
                inputs.append(("pop_computed", qt_pop))
            except Exception as e:  # noqa
                res.violation("c_factor", case, f"compute_c_factor on a population joint raised {type(e).__name__}: {e}")
            for c in subsets(t, 1):
                if len(districts(subgraph(g, c))) != 1:
                    continue
                want_ok = identify_cfactor_ok(g, frozenset(c), frozenset(t))
                for src, qexpr in inputs:
                    case2 = dict(case, C=list(c), q_input=src)
                    if only and (only.get("C"), only.get("T")) != (list(c), t):
                        continue
                    res.states += 1
                    res.transitions += 1
                    if len(res.samples) < 3 and len(c) < len(t) and len(g.nodes) >= 3:
                        res.sample(case2)
                    try:
                        out = identify_district_variables(
                            input_variables=frozenset(V(n) for n in c),
                            input_district=frozenset(V(n) for n in t),
                            district_probability=qexpr,
                            graph=yg,
                            topo=list(vt),
                        )
                    except Exception as e:  # noqa
                        res.violation("identify", case2, f"raised {type(e).__name__}: {e}")
                        res.outcomes["exception"] += 1
                        continue
                    if out is None:
                        res.outcomes["fail"] += 1
                        if want_ok:
                            res.violation("spurious_failure", case2, "returned None although Q[C] is computable from Q[T]")
                        continue
                    if not want_ok:
                        res.violation("identify", case2, f"returned {out} although the IDENTIFY fix-point fails (A = T)")
                    good = eval_q(res, out, c, models, case2, "identify", "identify_district_variables")
                    res.outcomes["identified_ok" if good else "identified_wrong"] += 1
        # c-factor routines from the distribution of an enclosing ancestral set
        for a in anc_sets:
            if tier == "quick" and ti not in (0, len(topos) - 1):
                break  # quick: ancestral-set c-factors under the first and last linear extension only
            ga = subgraph(g, a)
            a_topo = [V(n) for n in topo if n in a]
            rest = [V(n) for n in topo if n not in a]
            for d in sorted(sorted(x) for x in districts(ga)):
                forms = [("P(A)", P(*a_topo)), ("Sum P(V)", Sum.safe(joint, rest) if rest else None)]
                if len(a) >= 2 and (tier != "quick" or ti == 0):
                    # the same distribution P(A) spelled as a chain-rule product over every order of A (a Product input)
                    for perm in itt.permutations(sorted(a)):
                        pv = [V(n) for n in perm]
                        forms.append(
                            ("chain(" + ",".join(perm) + ")", Product.safe(P(pv[i] | pv[:i]) if i else P(pv[0]) for i in range(len(pv))))
                        )
                for src, prob in forms:
                    if prob is None:
                        continue
                    case3 = {"graph": g.to_json(), "topo": list(topo), "A": list(a), "D": d, "from": src}
                    res.states += 1
                    res.transitions += 1
                    try:
                        q = compute_c_factor(
                            district=[V(n) for n in d], subgraph_variables=set(a_topo), subgraph_probability=prob, graph_topo=vt
                        )
                    except Exception as e:  # noqa
                        res.violation("c_factor_ancestral", case3, f"raised {type(e).__name__}: {e}")
                        continue
                    # Q_{G[A]}[D](a) = P(d | do(a minus d)) (V minus A are non-ancestors of A): the expression must not
                    # depend on variables outside A, which eval over all V verifies.
                    models_a = models
                    ok = True
                    for label, m in models_a:
                        try:
                            fn, free = compile_expr(q, m.card)
                        except Malformed as e:
                            res.violation("c_factor_ancestral", case3, f"{q}: {e}")
                            ok = False
                            break
                        world = World({None: m, "π1": m})
                        for env in envs(m.card, {(n, None) for n in m.order}):
                            res.transitions += 1
                            do = frozenset((n, env[(n, None)]) for n in a if n not in d)
                            want = m.prob(do, frozenset((n, env[(n, None)]) for n in d))
                            try:
                                got = fn(env, world)
                            except (Undefined, MultiWorld, Malformed, KeyError) as e:
                                got = f"{type(e).__name__}: {e}"
                            if got != want:
                                res.violation(
                                    "c_factor_ancestral",
                                    dict(case3, profile=label, env={n: env[(n, None)] for n in m.order}),
                                    f"{q} evaluates to {got}, Q[D] in G[A] = {want}",
                                )
                                ok = False
                                break
                        if not ok:
                            break
                    res.outcomes["c_factor_ancestral_ok" if ok else "c_factor_ancestral_wrong"] += 1
    if snapshot(yg) != before:
        res.violation("side_effect", {"graph": g.to_json()}, "the caller's graph was modified")


def work(shard, tier, seed):
    lo, hi = shard
    res = Res()
    for g in _universe(tier)[lo:hi]:
        explore_graph(res, g, tier, seed)
    return res


def replay(case, clause=None):
    import os

    g = G.from_json(case["graph"])
    res = Res()
    explore_graph(res, g, "thorough", int(os.environ.get("VERIF_SEED", "0") or 0), only=case)
    return [v for v in res.violations if clause is None or v["clause"] == clause]
