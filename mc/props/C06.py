"""C06 Estimands mention only distributions the analyst actually has.

State space: the input spaces of C01 (ID), C03 (IDC), C05 (TRSO), C07 (ID*) and C08 (IDC*), without
numeric evaluation.  Oracle: a syntactic walk over every returned expression tree.
ID / IDC: every term is a plain observational probability over un-subscripted, un-starred nodes of
the user's graph; sums range over nodes of the graph; no population tag, no auxiliary node.
TRSO: every term is tagged with the target population (no subscripts) or with a declared source
domain (subscripts inside that domain's declared experiment set); never a transport node.
ID* / IDC*: every term is single-world (all its variables carry the same intervention set).
"""

from __future__ import annotations

from functools import lru_cache
import itertools as itt

from ..ctf import event_items, event_json, events, to_event
from ..graphs import G, disjoint_pairs, disjoint_triples, enum_L, enum_O
from ..runner import Res
from ..semantics import walk
from ..y0util import V, to_y0
from .C05 import POPS, domain_specs

TITLE = "Estimands mention only distributions the analyst actually has"


@lru_cache(maxsize=None)
def _work_items(tier):
    items = []
    for g in [g for n in (1, 2, 3) for g in enum_L(n)] + list(enum_O(4) if tier == "thorough" else enum_O(4, max_edges=4)):
        items.append(("id", g))
    for g in [g for n in (2, 3) for g in enum_L(n)] + list(enum_O(4, max_edges=4 if tier == "thorough" else 3)):
        items.append(("idc", g))
    for n in (2, 3):
        for g in enum_L(n) if tier == "thorough" else enum_O(n):
            items.append(("trso", g))
    for g in enum_O(4, max_edges=4 if tier == "thorough" else 3):
        items.append(("trso_wy", g))
    for g in enum_O(3, max_edges=3 if tier == "thorough" else 2):
        items.append(("trso_k2", g))
    for g in enum_O(4, max_edges=5):
        items.append(("trso_wy2", g))
    for g in [g for n in (1, 2, 3) for g in (enum_L(n) if tier == "thorough" else enum_O(n))]:
        items.append(("idstar", g))
        items.append(("idcstar", g))
    return items


def shards(tier):
    items = _work_items(tier)
    weight = {"id": 1, "idc": 2, "trso": 6, "trso_wy": 3, "trso_k2": 40, "trso_wy2": 3, "idstar": 8, "idcstar": 8}
    idx = sorted(range(len(items)), key=lambda i: -weight[items[i][0]] * len(items[i][1].nodes))
    size = 4
    return [tuple(idx[i : i + size]) for i in range(0, len(idx), size)]


def describe(tier):
    return {
        "bound": "ID: L(1..3) + O(4"
        + ("" if tier == "thorough" else ", <=4 edges")
        + ") all (X,Y); IDC: L(2..3) + O(4, few edges) all (X,Y,Z); TRSO: graphs up to 3 nodes with up to one source domain (all "
        "(Z,W) specs), two source domains (all ordered pairs of specs) on sparse three-node graphs, four-node slices with W = Y (one experiment node; two domains experimenting on "
        "two of the target interventions); ID*: events of up to two items; IDC*: one outcome "
        "and one condition item",
        "rule": "state = (algorithm, graph, query); transition = one algorithm call whose returned expression tree is walked "
        "term by term against the vocabulary rules",
        "assumptions": [
            "a plain (un-tagged) probability in a TRSO estimand would be read as the target observational distribution",
        ],
    }


def terms(expr):
    from y0.dsl import Probability, Sum

    for node in walk(expr):
        if isinstance(node, Probability):
            yield "P", node
        elif isinstance(node, Sum):
            yield "S", node


def check_observational(res, est, g: G, case, algo):
    from y0.dsl import CounterfactualVariable, PopulationProbability

    names = set(g.nodes)
    for kind, t in terms(est):
        if kind == "S":
            bad = [str(r) for r in t.ranges if r.name not in names or r.star is not None or isinstance(r, CounterfactualVariable)]
            if bad:
                res.violation(algo, case, f"sum over {bad} which are not plain nodes of the graph in {est}")
                return False
            continue
        if isinstance(t, PopulationProbability):
            res.violation(algo, case, f"population-tagged term {t} in {est}")
            return False
        for v in itt.chain(t.children, t.parents):
            if isinstance(v, CounterfactualVariable) or v.star is not None or v.name not in names:
                res.violation(algo, case, f"term {t} mentions {v!r}: not an un-subscripted, un-starred node of the graph (in {est})")
                return False
    return True


def check_trso(res, est, g: G, doms, case):
    from y0.dsl import TARGET_DOMAIN, CounterfactualVariable, PopulationProbability

    names = set(g.nodes)
    declared = {POPS[i]: set(z) for i, (z, w) in enumerate(doms)}
    for kind, t in terms(est):
        if kind == "S":
            bad = [str(r) for r in t.ranges if r.name not in names]
            if bad:
                res.violation("trso", case, f"sum over {bad} (not nodes of the graph; transport node?) in {est}")
                return False
            continue
        pop = t.population.name if isinstance(t, PopulationProbability) else TARGET_DOMAIN.name
        for v in itt.chain(t.children, t.parents):
            if v.name not in names:
                res.violation("trso", case, f"term {t} mentions {v} which is not a node of the user's graph (in {est})")
                return False
            subs = {i.name for i in v.interventions} if isinstance(v, CounterfactualVariable) else set()
            if pop == TARGET_DOMAIN.name:
                if subs:
                    res.violation("trso", case, f"target-domain term {t} carries intervention subscripts (in {est})")
                    return False
            elif pop not in declared:
                res.violation("trso", case, f"term {t} refers to the undeclared domain {pop} (in {est})")
                return False
            elif not subs <= declared[pop]:
                res.violation("trso", case, f"term {t} uses experiments {sorted(subs)} but domain {pop} declares only {sorted(declared[pop])} (in {est})")
                return False
    return True


def check_single_world(res, est, case, algo):
    from y0.dsl import CounterfactualVariable

    for kind, t in terms(est):
        if kind != "P":
            continue
        worlds = {
            frozenset((i.name, i.star) for i in v.interventions) if isinstance(v, CounterfactualVariable) else frozenset()
            for v in itt.chain(t.children, t.parents)
        }
        if len(worlds) > 1:
            res.violation(algo, case, f"term {t} mixes worlds {sorted(map(sorted, worlds))} (in {est})")
            return False
    return True


def run_item(res: Res, kind, g: G):
    from y0.algorithm.identify import Unidentifiable, identify_outcomes
    from y0.algorithm.identify.id_star import id_star
    from y0.algorithm.identify.idc_star import idc_star
    from y0.algorithm.transport import identify_target_outcomes
    from y0.dsl import Variable

    yg = to_y0(g)
    gj = g.to_json()
    if kind == "id":
        for x, y in disjoint_pairs(g.nodes):
            res.states += 1
            res.transitions += 1
            case = {"algorithm": "ID", "graph": gj, "X": list(x), "Y": list(y)}
            try:
                est = identify_outcomes(yg, treatments={V(n) for n in x}, outcomes={V(n) for n in y})
            except Exception:  # noqa
                res.outcomes["id_exception"] += 1
                continue
            if est is None:
                res.outcomes["id_none"] += 1
            elif check_observational(res, est, g, case, "id"):
                res.outcomes["id_ok"] += 1
                if len(res.samples) < 1 and len(g.nodes) == 3 and g.bi:
                    res.sample(dict(case, estimand=str(est)))
    elif kind == "idc":
        for x, y, z in disjoint_triples(g.nodes):
            res.states += 1
            res.transitions += 1
            case = {"algorithm": "IDC", "graph": gj, "X": list(x), "Y": list(y), "Z": list(z)}
            try:
                est = identify_outcomes(yg, treatments={V(n) for n in x}, outcomes={V(n) for n in y}, conditions={V(n) for n in z})
            except Exception:  # noqa
                res.outcomes["idc_exception"] += 1
                continue
            if est is None:
                res.outcomes["idc_none"] += 1
            elif check_observational(res, est, g, case, "idc"):
                res.outcomes["idc_ok"] += 1
    elif kind in ("trso", "trso_wy", "trso_k2", "trso_wy2"):
        specs = domain_specs(g.nodes)
        for x, y in disjoint_pairs(g.nodes):
            if kind == "trso":
                groups = [[]] + [[d] for d in specs]
            elif kind == "trso_k2":
                groups = [list(p) for p in itt.product(specs, repeat=2)]
            elif kind == "trso_wy2":
                groups = [[((z1,), y), ((z2,), y)] for z1, z2 in itt.permutations(x, 2)]
            else:
                groups = [[((z,), y)] for z in g.nodes if z not in y]
            for doms in groups:
                res.states += 1
                res.transitions += 1
                case = {"algorithm": "TRSO", "graph": gj, "X": list(x), "Y": list(y), "domains": [[list(z), list(w)] for z, w in doms]}
                pops = [Variable(p) for p in POPS[: len(doms)]]
                try:
                    est = identify_target_outcomes(
                        yg,
                        target_outcomes={V(n) for n in y},
                        target_interventions={V(n) for n in x},
                        surrogate_outcomes={p: {V(n) for n in w} for p, (z, w) in zip(pops, doms)},
                        surrogate_interventions={p: {V(n) for n in z} for p, (z, w) in zip(pops, doms)},
                    )
                except Exception:  # noqa
                    res.outcomes["trso_exception"] += 1
                    continue
                if est is None:
                    res.outcomes["trso_none"] += 1
                elif check_trso(res, est, g, doms, case):
                    res.outcomes["trso_ok"] += 1
                    if len(res.samples) < 2 and "π" in str(est):
                        res.sample(dict(case, estimand=str(est)))
    elif kind == "idstar":
        for items in events(g.nodes, 2, 2, 1):
            res.states += 1
            res.transitions += 1
            case = {"algorithm": "ID*", "graph": gj, "event": event_json(items)}
            try:
                est = id_star(yg, to_event(items))
            except Exception:  # noqa
                res.outcomes["idstar_refused"] += 1
                continue
            if check_single_world(res, est, case, "idstar"):
                res.outcomes["idstar_ok"] += 1
    elif kind == "idcstar":
        one = event_items(g.nodes, 1)
        for o in one:
            for c in one:
                if (o[0], o[1]) == (c[0], c[1]):
                    continue
                res.states += 1
                res.transitions += 1
                case = {"algorithm": "IDC*", "graph": gj, "outcomes": event_json((o,)), "conditions": event_json((c,))}
                try:
                    est = idc_star(yg, to_event((o,)), to_event((c,)))
                except Exception:  # noqa
                    res.outcomes["idcstar_refused"] += 1
                    continue
                if check_single_world(res, est, case, "idcstar"):
                    res.outcomes["idcstar_ok"] += 1


def work(shard, tier, seed):
    items = _work_items(tier)
    res = Res()
    for i in shard:
        run_item(res, *items[i])
    return res


def replay(case, clause=None):
    res = Res()
    kind = {"ID": "id", "IDC": "idc", "TRSO": "trso", "ID*": "idstar", "IDC*": "idcstar"}[case["algorithm"]]
    g = G.from_json(case["graph"])
    run_item(res, kind, g)
    if kind == "trso":
        run_item(res, "trso_wy", g)
        run_item(res, "trso_k2", g)
        run_item(res, "trso_wy2", g)
    keys = [k for k in ("X", "Y", "Z", "domains", "event", "outcomes", "conditions") if k in case]
    return [v for v in res.violations if all(v["input"].get(k) == case[k] for k in keys)]
