"""C05 Surrogate-outcome / transport (TRSO) estimands equal the target effect.

State space: graph x (X, Y) x list of 0..K source domains, each (experiment set Z_i, surrogate
outcome set W_i), W_i non-empty, Z_i and W_i disjoint x every value assignment.
Oracle: multi-domain witness family -- target model M*, and per source domain a model that shares
every mechanism with M* except at the nodes the selection diagram marks (there the mechanism's salt
differs).  The returned estimand, evaluated with PP[pi*] = M* observational and PP[pi_i][z] = M_i
under do(z), must equal P*(y | do x).  K = 0: an estimand is returned iff ID returns one.
Only an Expression or None may come back.
"""

from __future__ import annotations

from functools import lru_cache

import itertools as itt

from ..graphs import G, ancestors_inc, descendants_inc, disjoint_pairs, district_of, enum_L, enum_O, identifiable_tp
from ..graphs import remove_in_edges, subsets
from ..runner import Res
from ..scm import SCM, World
from ..semantics import Malformed, MultiWorld, Undefined, compile_expr, envs
from ..y0util import V, snapshot, to_y0

TITLE = "Surrogate-outcome / transport (TRSO) estimands equal the target effect"
POPS = ["π1", "π2"]
# which sub-derivation of a set-valued loop fails first depends on set iteration order: the totality slice ("wyt") is
# repeated in fresh interpreters under other hash seeds (the other slices run under the first seed only)
HASH_SEEDS = {"quick": [0, 1], "thorough": [0, 1, 2]}


def domain_specs(nodes):
    """All (Z, W): W non-empty, Z and W disjoint (Z may be empty)."""
    out = []
    for w in subsets(nodes, 1):
        rest = [v for v in nodes if v not in w]
        for z in subsets(rest, 0):
            out.append((z, w))
    return out


@lru_cache(maxsize=None)
def _cases(tier):
    """List of (graph, K) work items."""
    items = []
    if tier == "quick":
        for n in (2, 3):
            for g in enum_O(n):
                items.append((g, (0, 1)))
        for g in enum_O(3, max_edges=3):
            items.append((g, (2,)))
        for g in enum_O(4, max_edges=4):
            items.append((g, "wy"))
        for g in enum_O(4, max_edges=5):
            items.append((g, (0,)))  # no source domain: lines 8-10 on four-node graphs
        for g in enum_O(4, max_edges=5):
            items.append((g, "wy2"))  # two source domains, each experimenting on one of the target interventions
        for g in enum_O(4, max_edges=6):
            if len(g.di) + len(g.bi) >= 5:
                items.append((g, "wyt"))  # as "wy", outcome kind / side effects only (no numeric evaluation)
    else:
        for n in (2, 3):
            for g in enum_L(n):
                items.append((g, (0, 1, 2)))
        for g in enum_O(4, max_edges=4):
            items.append((g, (0, 1)))
        for g in enum_O(4):
            if len(g.di) + len(g.bi) >= 5:
                items.append((g, "wyt"))
    return items


def shards(tier):
    # one work item per shard, heaviest (largest K, most nodes) first for load balance
    items = _cases(tier)
    order = sorted(
        range(len(items)),
        key=lambda i: (-(1 if isinstance(items[i][1], str) else max(items[i][1])), -len(items[i][0].nodes), i),
    )
    return [(i, i + 1) for i in order]


def describe(tier):
    return {
        "bound": (
            "O(2), O(3) name-ordered ADMGs with K<=1 source domains (all 19 (Z,W) specs per domain at n=3); "
            "O(3, <=3 edges) with K=2 (all ordered pairs of specs); O(4, <=4 edges) with one source domain whose surrogate "
            "outcomes are the target outcomes and whose experiment is a single node; O(4, <=5 edges) with no source domain and with two source domains that each "
            "experiment on one of the target interventions and observe the target outcomes; O(4, 5..6 edges) with one such source "
            "domain checked for the kind of outcome and side effects only, repeated under PYTHONHASHSEED " + str(HASH_SEEDS[tier])
            if tier == "quick"
            else "L(2), L(3) all labelled ADMGs with K<=2 (all ordered pairs of domain specs); O(4, <=4 edges) with K<=1; O(4, >=5 "
            "edges) with one source domain (surrogate outcomes = target outcomes, one experiment node) checked for the kind of "
            "outcome and side effects only, repeated under PYTHONHASHSEED " + str(HASH_SEEDS[tier])
        )
        + "; every disjoint non-empty X, Y; binary witness + one ternary-node witness; every value assignment",
        "rule": "state = (graph, X, Y, [(Z_i, W_i)]); transition = one identify_target_outcomes call whose estimand is "
        "evaluated on the multi-domain witness family and compared with P*(y|do x)",
        "assumptions": [
            "source-domain models differ from the target exactly at the nodes marked with a transport node by y0's own "
            "surrogate_to_transport, united with the marks of the published construction (De(Z_i) minus W_i) U (C(W_i) "
            "minus An(W_i) in G with in-edges of Z_i removed): if y0 marks a superset the family is exactly y0's",
            "a subscript -N on a source-domain term means do(N = value of N in the assignment)",
        ],
    }


def ref_transport_marks(g: G, z, w):
    comp = set()
    for v in w:
        comp |= district_of(g, v)
    anc = ancestors_inc(remove_in_edges(g, z), w)
    return (set(descendants_inc(g, z)) - set(w)) | (comp - set(anc))


ARG_SETS = {}


def arg_set(names):
    """One set object per node tuple, reused for every call of this process (a caller may well pass the same set twice)."""
    k = tuple(names)
    if k not in ARG_SETS:
        ARG_SETS[k] = {V(n) for n in names}
    return ARG_SETS[k]


def check_case(res: Res, g: G, yg, x, y, doms, models_star, case, total_only=False):
    from y0.algorithm.transport import identify_target_outcomes, surrogate_to_transport
    from y0.dsl import Expression, Variable

    res.states += 1
    res.transitions += 1
    pops = [Variable(p) for p in POPS[: len(doms)]]
    so = {p: {V(n) for n in w} for p, (z, w) in zip(pops, doms)}
    si = {p: {V(n) for n in z} for p, (z, w) in zip(pops, doms)}
    before = snapshot(yg)
    xs, ys = arg_set(x), arg_set(y)
    if {str(v) for v in xs} != set(x) or {str(v) for v in ys} != set(y):
        # an earlier call of this process changed the caller's set: already reported then; restore and go on
        ARG_SETS.pop(tuple(x), None)
        ARG_SETS.pop(tuple(y), None)
        xs, ys = arg_set(x), arg_set(y)
    try:
        est = identify_target_outcomes(
            yg,
            target_outcomes=ys,
            target_interventions=xs,
            surrogate_outcomes=so,
            surrogate_interventions=si,
        )
    except Exception as e:  # noqa
        res.outcomes[f"exception:{type(e).__name__}"] += 1
        res.violation("total", case, f"identify_target_outcomes raised {type(e).__name__}: {e}")
        return
    if snapshot(yg) != before:
        res.violation("side_effect", case, "identify_target_outcomes modified the caller's graph")
    if (
        {str(v) for v in xs} != set(x)
        or {str(v) for v in ys} != set(y)
        or any({str(v) for v in so[p]} != set(w) or {str(v) for v in si[p]} != set(z) for p, (z, w) in zip(pops, doms))
    ):
        res.violation(
            "side_effect",
            case,
            "identify_target_outcomes modified the query sets it was given (the same set object then denotes another "
            f"query in the caller's next call): X is now {sorted(map(str, xs))}, Y {sorted(map(str, ys))}",
        )
    if est is not None and not isinstance(est, Expression):
        res.violation("total", case, f"returned a {type(est).__name__}")
        return
    if not doms:
        want = identifiable_tp(g, x, y)
        if (est is not None) != want:
            res.violation("k0_matches_id", case, f"no source domains: returned {est}, ID-identifiable = {want}")
    # the two mappings are equal as dicts whatever the order their keys were written in: with two domains the call is
    # repeated with surrogate_interventions written in the opposite key order (argument presentation, after seeded C05-h)
    alt = None
    if len(doms) >= 2:
        si_rev = {p: si[p] for p in reversed(list(si))}
        try:
            alt = identify_target_outcomes(
                yg, target_outcomes=ys, target_interventions=xs, surrogate_outcomes=so, surrogate_interventions=si_rev
            )
        except Exception as e:  # noqa
            res.outcomes[f"exception:{type(e).__name__}"] += 1
            res.violation("total", dict(case, si_reversed=True), f"identify_target_outcomes raised {type(e).__name__}: {e} (surrogate_interventions in reversed key order)")
            alt = None
        if alt is not None and not isinstance(alt, Expression):
            res.violation("total", dict(case, si_reversed=True), f"returned a {type(alt).__name__}")
            alt = None
        if alt is not None and str(alt) == str(est):
            alt = None  # same estimand: judged below
        res.transitions += 1
    if est is None:
        res.outcomes["none"] += 1
    else:
        res.outcomes["estimand"] += 1
    if alt is not None:
        res.outcomes["estimand_differs_with_reversed_key_order"] += 1
    if total_only or (est is None and alt is None):
        return
    # transport marks from y0's own diagrams, united with the published construction
    tq = surrogate_to_transport(
        graph=yg,
        target_outcomes={V(n) for n in y},
        target_interventions={V(n) for n in x},
        surrogate_outcomes=so,
        surrogate_interventions=si,
    )
    marks = {}
    for p, (z, w) in zip(pops, doms):
        own = {str(n)[2:] for n in tq.graphs[p].nodes() if str(n).startswith("T_")}
        ref = ref_transport_marks(g, z, w)
        if not ref <= own:
            res.extra["y0_marks_fewer_transport_nodes_than_reference"] += 1
        marks[p.name] = own | ref
    cands = ([(case, est)] if est is not None else []) + ([(dict(case, si_reversed=True), alt)] if alt is not None else [])
    for (case, est), (label, mstar) in itt.product(cands, models_star):
        models = {"pi*": mstar}
        for pname, mk in marks.items():
            models[pname] = SCM(g, card=mstar.card, salt=mstar.salt, node_salt={v: f"{mstar.salt}/{pname}" for v in mk})
        world = World(models)
        try:
            fn, free = compile_expr(est, mstar.card)
        except Malformed as e:
            res.violation("malformed", dict(case, profile=label), f"{est} : {e}")
            return
        names = {n for n, _ in free} | set(x) | set(y)
        for env in envs(mstar.card, {(n, None) for n in names}):
            res.transitions += 1
            do = frozenset((n, env[(n, None)]) for n in x)
            want = mstar.prob(do, frozenset((n, env[(n, None)]) for n in y))
            try:
                got = fn(env, world)
            except (Undefined, MultiWorld, Malformed, KeyError) as e:
                got = f"{type(e).__name__}: {e}"
            if got != want:
                res.violation(
                    "value",
                    dict(case, profile=label, env={n: env[(n, None)] for n in sorted(names)}),
                    f"estimand {est} evaluates to {got}, P*(y|do x) = {want}; transport marks {marks}",
                )
                res.outcomes["wrong_value"] += 1
                return
    res.outcomes["estimand_correct"] += 1
    if "π" in str(est):
        res.outcomes["estimand_uses_source_domain"] += 1


def explore_graph(res: Res, g: G, ks, tier, seed, only=None):
    yg = to_y0(g)
    first, last = g.nodes[0], g.nodes[-1]
    models_star = []
    if ks != "wyt":
        models_star.append(("W2", SCM(g, salt=f"s{seed}")))
        tern = first if (len(g.di) + len(g.bi)) % 2 else last
        models_star.append(("W3", SCM(g, card={tern: 3}, salt=f"s{seed}")))
    specs = domain_specs(g.nodes)
    for x, y in disjoint_pairs(g.nodes):
        if ks in ("wy", "wyt"):
            groups = [[((z,), y)] for z in g.nodes if z not in y]
        elif ks == "wy2":
            groups = [[((z1,), y), ((z2,), y)] for z1, z2 in itt.permutations(x, 2)]
        else:
            groups = [doms for k in ks for doms in itt.product(specs, repeat=k)]
        for doms in groups:
            k = len(doms)
            if True:
                case = {
                    "graph": g.to_json(),
                    "X": list(x),
                    "Y": list(y),
                    "domains": [[list(z), list(w)] for z, w in doms],
                }
                if ks == "wyt":
                    case["total_only"] = True
                if only is not None and (case["X"], case["Y"], case["domains"]) != only:
                    continue
                if len(res.samples) < 3 and k >= 1 and g.bi and g.di and doms[0][0]:
                    res.sample(case)
                check_case(res, g, yg, x, y, list(doms), models_star, case, total_only=(ks == "wyt"))


def work(shard, tier, seed):
    import os

    lo, hi = shard
    res = Res()
    other_seed = int(os.environ.get("PYTHONHASHSEED", "0") or 0) != HASH_SEEDS[tier][0]
    for g, ks in _cases(tier)[lo:hi]:
        if other_seed and ks != "wyt":
            continue
        explore_graph(res, g, ks, tier, seed)
    return res


def replay(case, clause=None):
    import os

    g = G.from_json(case["graph"])
    res = Res()
    explore_graph(
        res,
        g,
        "wyt" if case.get("total_only") else (len(case["domains"]),),
        "thorough",
        int(os.environ.get("VERIF_SEED", "0") or 0),
        only=(case["X"], case["Y"], case["domains"]),
    )
    return [v for v in res.violations if clause is None or v["clause"] == clause]
