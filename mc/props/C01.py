"""C01 ID estimands equal the true interventional distribution.

State space: graph x (X, Y) disjoint non-empty x witness profile x every value assignment.
Oracle: value of the returned estimand on the witness SCM's observational joint == P(y | do x)
of the same SCM by truncated factorisation, for every assignment of the estimand's free
variables and of X and Y (so dependence on a stray free variable is a mismatch).
"""

from __future__ import annotations

from functools import lru_cache

from ..graphs import G, disjoint_pairs, districts, enum_L, enum_O, identifiable_tp, irreducible_queries
from ..runner import Res
from ..scm import SCM, World
from ..semantics import Malformed, MultiWorld, Undefined, compile_expr, envs
from ..y0util import V, to_y0

TITLE = "ID estimands equal the true interventional distribution"


@lru_cache(maxsize=None)
def _universe(tier):
    """(mode, graph): 'full' = every (X, Y); 'irr' = only irreducible identifiable queries (five-node graphs)."""
    if tier == "quick":
        full = [g for n in (1, 2, 3) for g in enum_L(n)] + list(enum_O(4))
        return [("full", g) for g in full] + [("l7", g) for g in enum_O(5, max_edges=8)]
    full = [g for n in (1, 2, 3, 4) for g in enum_L(n)] + list(enum_O(5, max_edges=5))
    o5 = list(enum_O(5, max_edges=9))
    return (
        [("full", g) for g in full]
        + [("irr", g) for g in o5 if 5 < len(g.di) + len(g.bi) <= 8]
        + [("l7", g) for g in o5 if len(g.di) + len(g.bi) == 9]
    )


def profiles(g: G, tier, seed):
    """Witness profiles: (label, card, salt)."""
    first = g.nodes[0]
    last = g.nodes[-1]
    out = [("W2", {}, f"s{seed}")]
    if tier == "thorough":
        out.append(("W3a", {first: 3}, f"s{seed}"))
        out.append(("W3z", {last: 3}, f"t{seed}"))
    else:
        # quick: alternate the ternary node with the graph so both profiles are exercised
        out.append(("W3a", {first: 3}, f"s{seed}") if (len(g.di) + len(g.bi)) % 2 else ("W3z", {last: 3}, f"s{seed}"))
    return out


def shards(tier):
    uni = _universe(tier)
    nfull = sum(1 for m, _ in uni if m == "full")
    size = 64 if tier == "quick" else 128
    out = [(i, min(i + size, nfull)) for i in range(0, nfull, size)]
    out += [(i, min(i + 2048, len(uni))) for i in range(nfull, len(uni), 2048)]
    out += [("build", i) for i in range(len(build_ops()))]
    return out


BUILD_NAMES = ("A", "B", "C")


def build_ops():
    import itertools as itt

    return [("d", u, v) for u in BUILD_NAMES for v in BUILD_NAMES if u != v] + [("b", u, v) for u, v in itt.combinations(BUILD_NAMES, 2)]


def explore_builder(res: Res, first, tier, seed):
    """Every sequence of 3 edge insertions on ONE live graph object (3 names); after every insertion every query is
    identified on that object and the estimand is evaluated on the witness of the graph as it is now.  The treatment and
    outcome sets are the same objects throughout a sequence."""
    import itertools as itt

    from y0.graph import NxMixedGraph

    from ..graphs import is_acyclic

    ops = build_ops()
    for tail in itt.product(range(len(ops)), repeat=2):
        seq = (first,) + tail
        y = NxMixedGraph()
        for n in BUILD_NAMES:
            y.add_node(V(n))
        di, bi, hist = [], [], []
        pool = {}  # the caller's argument sets live as long as the graph object: one set object per X and per Y
        for k in seq:
            kind, u, v = ops[k]
            hist.append([kind, u, v])
            if kind == "d":
                if (u, v) in di or not is_acyclic(BUILD_NAMES, di + [(u, v)]):
                    break
                di.append((u, v))
                y.add_directed_edge(V(u), V(v))
            else:
                if (u, v) in bi:
                    break
                bi.append((u, v))
                y.add_undirected_edge(V(u), V(v))
            g = G(BUILD_NAMES, tuple(di), tuple(bi))
            models = [("W2", SCM(g, salt=f"s{seed}"))]
            before = len(res.violations)
            for x, yy in disjoint_pairs(g.nodes):
                case = {"builder_ops": list(hist), "graph": g.to_json(), "X": list(x), "Y": list(yy)}
                check_query(res, g, y, x, yy, models, case, pool=pool)
            if len(res.violations) > before:
                break


def describe(tier):
    return {
        "bound": (
            "graphs: L(1..3) all labelled ADMGs + O(4) all 4096 name-ordered four-node ADMGs"
            if tier == "quick"
            else "graphs: L(1..4) all labelled ADMGs (34 959) + O(5, <=5 edges)"
        )
        + "; every ordered pair of disjoint non-empty X, Y; plus five-node name-ordered ADMGs with "
        + ("<=8 edges" if tier == "quick" else "6..9 edges")
        + " restricted to irreducible identifiable queries (first ID step is none of lines 2, 3, 4: all nodes ancestors of "
        "Y, no node addable to X, G minus X one district; every other query reduces to these by formulas exercised at n<=4)"
        + (
            "; with 9 edges only those whose first step is line 7"
            if tier == "thorough"
            else " whose first step is line 7 (G minus X is not a district of G), binary witness only"
        )
        + "; plus every sequence of 3 edge insertions on one live three-node graph object with all queries after every insertion"
        + "; witness profiles: all-binary"
        + (" + first node ternary + last node ternary (second salt)" if tier == "thorough" else " + one ternary node")
        + "; every value assignment of estimand free variables, X and Y",
        "rule": "state = (graph, X, Y, witness profile); transition = one identify_outcomes call whose estimand is "
        "evaluated on the witness SCM for every assignment and compared with P(y|do x) by truncated factorisation",
        "assumptions": [
            "the quantifier over all SCMs is discharged on hash-derived generic positive rational witnesses "
            "(sound for alarms: an identity that holds in every model holds in the witness)",
            "subscript/value convention: a free variable N and -N denote the value of N in the assignment",
        ],
    }


def truth(m: SCM, x, y, env):
    do = frozenset((n, env[(n, None)]) for n in x)
    return m.prob(do, frozenset((n, env[(n, None)]) for n in y))


def check_query(res: Res, g: G, yg, x, y, models, case, pool=None):
    from y0.algorithm.identify import identify_outcomes

    res.states += 1
    res.transitions += 1
    if pool is None:
        tx, ty = {V(n) for n in x}, {V(n) for n in y}
    else:
        # builder phase: the same set objects are handed to every call of the sequence that asks about the same X (Y);
        # if a call changes them, a later answer is for another query than the one the caller wrote down
        tx = pool.setdefault(("x", x), {V(n) for n in x})
        ty = pool.setdefault(("y", y), {V(n) for n in y})
    try:
        est = identify_outcomes(yg, treatments=tx, outcomes=ty)
    except Exception as e:  # noqa  (totality is C02's clause; here it is only counted)
        res.outcomes[f"exception:{type(e).__name__}"] += 1
        return
    if est is None:
        res.outcomes["unidentifiable"] += 1
        return
    res.outcomes["estimand"] += 1
    for label, m in models:
        try:
            fn, free = compile_expr(est, m.card)
        except Malformed as e:
            res.violation("malformed", dict(case, profile=label), f"{est} : {e}")
            return
        names = {n for n, _ in free} | set(x) | set(y)
        world = World({None: m})
        stray = sorted({n for n, _ in free} - set(x) - set(y))
        if stray:
            res.extra["estimands_with_stray_free_variables"] += 1
        for env in envs(m.card, {(n, None) for n in names}):
            res.transitions += 1
            want = truth(m, x, y, env)
            try:
                got = fn(env, world)
            except (Undefined, MultiWorld, Malformed, KeyError) as e:
                res.violation(
                    "value",
                    dict(case, profile=label, env={n: env[(n, None)] for n in sorted(names)}),
                    f"estimand {est} cannot be evaluated: {type(e).__name__}: {e}; truth {want}",
                )
                return
            if got != want:
                res.violation(
                    "value",
                    dict(case, profile=label, env={n: env[(n, None)] for n in sorted(names)}),
                    f"estimand {est} evaluates to {got}, P(y|do x) = {want}"
                    + (f"; stray free variables {stray}" if stray else ""),
                )
                res.outcomes["wrong_value"] += 1
                return
    res.outcomes["estimand_correct"] += 1


def explore_graph(res: Res, g: G, tier, seed, only=None, mode="full"):
    if mode in ("irr", "l7"):
        queries = [(x, y) for x, y in irreducible_queries(g) if identifiable_tp(g, x, y)]
        if mode == "l7":
            ds = districts(g)
            queries = [(x, y) for x, y in queries if frozenset(v for v in g.nodes if v not in x) not in ds]
        if not queries:
            return
    else:
        queries = list(disjoint_pairs(g.nodes))
    yg = to_y0(g)
    profs = profiles(g, tier, seed)
    if mode != "full" and tier == "quick":
        profs = profs[:1]
    models = [(label, SCM(g, card=card, salt=salt)) for label, card, salt in profs]
    for x, y in queries:
        if only and (list(x), list(y)) != only:
            continue
        case = {"graph": g.to_json(), "X": list(x), "Y": list(y)}
        if len(res.samples) < 3 and len(g.nodes) >= 3 and g.bi and len(g.di) >= 2:
            res.sample(case)
        check_query(res, g, yg, x, y, models, case)


def work(shard, tier, seed):
    res = Res()
    if shard[0] == "build":
        explore_builder(res, shard[1], tier, seed)
        return res
    lo, hi = shard
    for mode, g in _universe(tier)[lo:hi]:
        explore_graph(res, g, tier, seed, mode=mode)
    return res


def replay(case, clause=None):
    import os

    if "builder_ops" in case:
        res = Res()
        ops = build_ops()
        explore_builder(res, ops.index(tuple(case["builder_ops"][0])), "quick", int(os.environ.get("VERIF_SEED", "0") or 0))
        return [v for v in res.violations if v["input"].get("builder_ops") == case["builder_ops"]][:1]
    g = G.from_json(case["graph"])
    res = Res()
    explore_graph(res, g, "thorough", int(os.environ.get("VERIF_SEED", "0") or 0), only=[case["X"], case["Y"]])
    return [v for v in res.violations if clause is None or v["clause"] == clause]
