"""C09 Counterfactual transport (ctfTRu / ctfTR) answers are correct.

State space: target graph x list of source domains (set S of transport-marked nodes, policy set Z whose
incoming edges are removed in the domain graph, population tag, topological order) x counterfactual
event (ctfTRu) or (outcomes | conditions) pair (ctfTR) x every base value assignment.
Oracle (multi-domain functional witness family, exhaustive noise enumeration): the returned
expression, evaluated on the declared domain distributions with the returned event's values, equals
the target-domain probability (conditional probability) of the queried event; Zero() only for
impossible events; an input that passes y0's own validation yields a result or None, never an error.
"""

from __future__ import annotations

from functools import lru_cache
import itertools as itt

from ..builder import NAMES3, build_ops, replay_sequence, run_sequences
from ..ctf import base_assignments, event_from_json, event_items, event_json, events, ground_items, item_key, node_to_item
from ..fscm import FSCM, FWorld
from ..graphs import G, enum_O, remove_in_edges, subsets, topological_orders
from ..runner import Res, fkey_of
from ..semantics import Malformed, MultiWorld, Undefined
from ..y0util import V, snapshot, to_y0
from .C07 import Pair, judge_expression

TITLE = "Counterfactual transport (ctfTRu / ctfTR) answers are correct"
POP = "π1"


@lru_cache(maxsize=None)
def _universe(tier):
    if tier == "quick":
        return list(enum_O(2)) + list(enum_O(3, max_edges=2))
    return list(enum_O(2)) + list(enum_O(3, max_edges=3))


def domain_configs(nodes, tier):
    """(S, Z): S transport-marked nodes, Z policy nodes, disjoint."""
    out = []
    for z in subsets(nodes, 0, 1):
        rest = [v for v in nodes if v not in z]
        for s in subsets(rest, 0):
            out.append((tuple(s), tuple(z)))
    return out


@lru_cache(maxsize=None)
def _hub_graphs(tier):
    """Four-node target graphs with at least three bidirected edges and at most five edges: ancestors can be joined
    only through a hub of bidirected edges, which is where the ctf-factor / IDENTIFY interplay recurses."""
    from ..graphs import enum_O as eo

    gs = [g for g in eo(4, max_edges=5) if len(g.bi) >= 3]
    if tier == "quick":
        gs = [g for g in gs if len(g.di) >= 2]  # quick: the 300 of them that also have two directed edges
    return gs


def explore_hub(res: Res, g: G, tier, seed):
    """Unconditional queries on a four-node hub graph: every transport-marked set of at most two nodes, no policy,
    single all-'-' event items with at most one subscript."""
    yg = to_y0(g)
    gj = g.to_json()
    items_all = [it for it in event_items(g.nodes, 1, reflexive=False) if not it[2] and not any(s for _, s in it[1])]
    for s in subsets(g.nodes, 0, 2):
        fam = Family(g, s, (), seed)
        dom, _ = build_domain(g, s, (), 0)
        dj = {"S": list(s), "Z": [], "order": [str(v) for v in dom.ordering]}
        for it in items_all:
            case = {"graph": gj, "domain": dj, "event": event_json((it,))}
            check_unconditional(res, g, yg, fam, dom, (it,), case)


@lru_cache(maxsize=None)
def _nested_graphs(tier):
    """Four-node name-ordered graphs in which one intervened variable can be an ancestor of another: at least one
    directed path of length two (u -> v -> w), at most 4 (thorough 5) edges, at most one bidirected edge."""
    from ..graphs import enum_O as eo

    out = []
    for g in eo(4, max_edges=4 if tier == "quick" else 5):
        if len(g.bi) > 1 or len(g.di) < 3:
            continue
        if any(b == c for a, b in g.di for c, d in g.di):
            out.append(g)
    return out


def nested_events(g: G):
    """Pairs (W with two all-'-' subscripts {a, b} where a is a parent of b; another variable with one all-'-' subscript
    taken from {a, b}), non-reflexive: nested interventions with a mediator observed in a second world."""
    evs = []
    for a, b in g.di:
        for w in g.nodes:
            if w in (a, b):
                continue
            first = (w, ((a, False), (b, False)) if a < b else ((b, False), (a, False)), False)
            evs.append((first,))
            for m in g.nodes:
                for s in (a, b):
                    if m == s or (m == w):
                        continue
                    evs.append((first, (m, ((s, False),), False)))
    return sorted(set(evs))


def explore_nested(res: Res, g: G, tier, seed, only=None):
    yg = to_y0(g)
    gj = g.to_json()
    evs = nested_events(g)
    for s in subsets(g.nodes, 0, 1):
        fam = Family(g, s, (), seed)
        dom, _ = build_domain(g, s, (), 0)
        dj = {"S": list(s), "Z": [], "order": [str(v) for v in dom.ordering]}
        if only is not None and only["domain"] != dj:
            continue
        for items in evs:
            if only is not None and event_json(items) != only["event"]:
                continue
            case = {"graph": gj, "domain": dj, "event": event_json(items), "nested": True}
            check_unconditional(res, g, yg, fam, dom, items, case)


def shards(tier):
    uni = _universe(tier)
    out = [("hub", i, i + 8) for i in range(0, len(_hub_graphs(tier)), 8)]
    out += [("nested", i, i + 8) for i in range(0, len(_nested_graphs(tier)), 8)]
    for i, g in enumerate(uni):
        cfgs = domain_configs(g.nodes, tier)
        step = 4 if len(g.nodes) >= 3 else len(cfgs)
        for j in range(0, len(cfgs), step):
            out.append((i, j, min(j + step, len(cfgs))))
    out.sort(key=lambda t: 0 if t[0] in ("hub", "nested") else -len(uni[t[0]].nodes))
    # builder phase: the target graph object and the domain graph objects grown edge by edge, queried after every insertion
    out += [("build", i) for i in range(len(build_ops(NAMES3)))]
    return out


def describe(tier):
    return {
        "bound": ("target graphs O(2) + O(3, <=2 edges)" if tier == "quick" else "target graphs O(2) + O(3, <=3 edges)")
        + "; one source domain: every set S of transport-marked nodes x every policy set Z (|Z| <= 1"
        + ", disjoint from S), domain graph = target graph with edges into Z removed plus T_s -> s; orderings: the graph's own "
        "and the reversed-tie alternative; ctfTRu events of up to two items (up to 1 subscript each"
        + ("" if tier == "thorough" else ", non-reflexive")
        + "); ctfTR: one outcome and one condition item"
        + ("" if tier == "thorough" else " on the policy-free domains")
        + "; every base value assignment; plus ctfTRu on the four-node graphs "
        "with >=3 bidirected and <=5 edges (quick: the 300 with two directed edges; thorough: all 551), transport-marked sets of <=2 nodes, single all-'-' items with <=1 subscript; nested-intervention slice: the name-ordered four-node graphs with a directed path of length two, <=1 bidirected edge and <=4 (thorough 5) edges, no or one transport node, events (W with two all-'-' subscripts {a,b}, a a parent of b) alone and paired with another variable under one of the two subscripts; builder sequences: every sequence of 3 edge insertions over 3 names applied in place to one target graph "
        "object and to one selection-diagram object per source domain (no or one transport node), ctfTRu asked for every all-'-' event of up to two items after every insertion",
        "rule": "state = (target graph, domain, event/query); transition = one unconditional_cft / conditional_cft call whose "
        "expression is evaluated on the multi-domain functional witness family and compared with the target probability",
        "assumptions": [
            "source-domain model: every mechanism shared with the target except at nodes of S (own mechanism) and of Z (a fresh "
            "policy mechanism of the parents the domain graph gives, i.e. none)",
            "reading of the result: un-starred N = the returned event's own value of N, or, if the event gives N no value but "
            "fixes it in a subscript, the value of that subscript; -N / +N literal; Sum binds N and -N",
        ],
    }


class Family:
    """Target model and one source-domain model, evaluated side by side on two witness salts."""

    def __init__(self, g: G, s, z, seed):
        self.g = g
        gd = remove_in_edges(g, z)  # policy: edges (directed and bidirected) into Z are cut
        self.gd = gd
        self.pairs = []
        for salt in (f"f{seed}", f"g{seed}"):
            target = FSCM(g, salt=salt)
            ns = {v: f"{salt}/dom/{v}" for v in s}
            ns.update({v: f"{salt}/policy/{v}" for v in z})
            source = FSCM(gd, salt=salt, node_salt=ns)
            self.pairs.append((target, source))
        self.card = self.pairs[0][0].card

    def prob_items(self, items):
        return tuple(t.prob_items(items) for t, _ in self.pairs)

    def joint(self, pop, items):
        items = list(items)
        out = []
        for t, s in self.pairs:
            if pop in ("pi*", None):
                m = t
            elif pop == POP:
                m = s
            else:
                raise KeyError(f"undeclared population {pop!r}")
            out.append(FWorld({pop: m}).joint(pop, items))
        return Pair(out)


def build_domain(g: G, s, z, order_variant):
    from y0.algorithm.counterfactual_transport import CFTDomain
    from y0.algorithm.transport import transport_variable
    from y0.dsl import PP, Variable
    from y0.graph import NxMixedGraph

    gd = remove_in_edges(g, z)
    yd = NxMixedGraph.from_str_edges(nodes=list(g.nodes), directed=list(gd.di), undirected=list(gd.bi))
    for v in s:
        yd.add_directed_edge(transport_variable(V(v)), V(v))
    topos = list(topological_orders(gd))
    order = topos[0] if order_variant == 0 else topos[-1]
    # the list must contain the transport nodes too: variant 0 puts them first, variant 1 right before their child
    if order_variant == 0:
        full = [transport_variable(V(v)) for v in s] + [V(n) for n in order]
    else:
        full = []
        for n in order:
            if n in s:
                full.append(transport_variable(V(n)))
            full.append(V(n))
    dom = CFTDomain(
        graph=yd,
        population=PP[Variable(POP)]([V(n) for n in g.nodes]),
        policy_variables={V(n) for n in z},
        ordering=full,
    )
    return dom, len(topos)


def y0_event(items):
    from y0.dsl import Intervention

    return [(item_key(it), Intervention(name=it[0], star=it[2])) for it in items]


def _raised_by_input_validation(exc) -> bool:
    """True if the exception was raised inside one of y0's input-validation routines (_validate_*_input)."""
    tb = exc.__traceback__
    while tb is not None:
        name = tb.tb_frame.f_code.co_name
        if name.startswith("_validate_") and name.endswith("_input") or name.startswith("validate_inputs_"):
            return True
        tb = tb.tb_next
    return False


def transport_env(items, a):
    """Reading of a ctfTRu / ctfTR result: an un-starred N is the returned event's own value of N; if the event gives N no
    value but fixes it in a subscript (Y_x with X not observed), N is the value of that subscript -- the Q-factors are
    written with plain parents standing for the intervened values."""
    from ..ctf import event_value_env, val

    env, ambiguous = event_value_env(items, a)
    subs = {}
    for _, ss, _ in items:
        for n, star in ss:
            subs.setdefault(n, set()).add(star)
    for n, stars in subs.items():
        if (n, None) not in env and n not in ambiguous and len(stars) == 1:
            env[(n, None)] = val(a, n, next(iter(stars)))
    return env, ambiguous


def check_unconditional(res: Res, g: G, yg, fam: Family, dom, items, case):
    from y0.algorithm.counterfactual_transport.api import (
        _validate_transport_unconditional_counterfactual_query_input,
        transport_unconditional_counterfactual_query,
    )
    from y0.dsl import Expression, Zero

    res.states += 1
    res.transitions += 1
    ev = y0_event(items)
    kw = dict(
        event=list(ev),
        target_domain_graph=yg,
        domain_graphs=[(dom.graph, list(dom.ordering))],
        domain_data=[(set(dom.policy_variables), dom.population)],
    )
    try:
        _validate_transport_unconditional_counterfactual_query_input(**kw)
    except Exception as e:  # noqa
        res.outcomes[f"u_rejected_by_validation:{type(e).__name__}"] += 1
        return
    fkey = fkey_of("C09u", case["graph"], case["domain"], case["event"])
    kw["event"] = list(ev)
    try:
        out = transport_unconditional_counterfactual_query(**kw)
    except Exception as e:  # noqa
        if _raised_by_input_validation(e):
            res.outcomes[f"u_rejected_by_inner_validation:{type(e).__name__}"] += 1
            return
        res.outcomes[f"u_exception:{type(e).__name__}"] += 1
        res.violation("u_total", case, f"ctfTRu raised {type(e).__name__}: {e} on a validated input", finding="u_exception", fkey=fkey)
        return
    if out is None:
        res.outcomes["u_fail"] += 1
        return
    expr, rev = out.expression, out.event
    truths = [fam.prob_items(ground_items(items, a)) for a in base_assignments(g.nodes)]
    if isinstance(expr, Zero):
        if any(t != (0, 0) for t in truths):
            res.outcomes["u_wrong_zero"] += 1
            res.violation("u_zero", case, f"returned Zero() but the event has probability {max(truths)}", finding="u_wrong_zero", fkey=fkey)
        else:
            res.outcomes["u_zero_ok"] += 1
        return
    if not isinstance(expr, Expression) or rev is None:
        res.violation("u_total", case, f"returned expression {expr!r} with event {rev!r}", fkey=fkey)
        return
    try:
        ritems = [node_to_item(k, v) for k, v in rev]
    except Exception as e:  # noqa
        res.violation("u_total", case, f"returned event {rev!r} is malformed: {e}", fkey=fkey)
        return
    truth_by_a = {tuple(sorted(a.items())): t for a, t in zip(base_assignments(g.nodes), truths)}
    outcome = judge_expression(
        res,
        expr,
        ritems,
        g,
        fam,
        fam,
        case,
        clause_prefix="u_",
        finding="u_wrong_value",
        fkey=fkey,
        truth_fn=lambda a: truth_by_a[tuple(sorted(a.items()))],
        env_fn=transport_env,
    )
    res.outcomes["u_" + outcome] += 1
    if outcome == "correct" and len(res.samples) < 3 and POP in str(expr):
        res.sample(dict(case, expression=str(expr)))


def check_conditional(res: Res, g: G, yg, fam: Family, dom, outs, conds, case):
    from y0.algorithm.counterfactual_transport.api import (
        _validate_transport_conditional_counterfactual_query_input,
        transport_conditional_counterfactual_query,
    )
    from y0.dsl import Expression, Zero

    res.states += 1
    res.transitions += 1
    kw = dict(
        outcomes=y0_event(outs),
        conditions=y0_event(conds),
        target_domain_graph=yg,
        domain_graphs=[(dom.graph, list(dom.ordering))],
        domain_data=[(set(dom.policy_variables), dom.population)],
    )
    try:
        _validate_transport_conditional_counterfactual_query_input(**kw)
    except Exception as e:  # noqa
        res.outcomes[f"c_rejected_by_validation:{type(e).__name__}"] += 1
        return
    fkey = fkey_of("C09c", case["graph"], case["domain"], case["outcomes"], case["conditions"])
    kw["outcomes"], kw["conditions"] = y0_event(outs), y0_event(conds)
    try:
        out = transport_conditional_counterfactual_query(**kw)
    except Exception as e:  # noqa
        if _raised_by_input_validation(e):
            # an input-validation routine (here: of the inner unconditional query) rejected the query: a legitimate refusal
            res.outcomes[f"c_rejected_by_inner_validation:{type(e).__name__}"] += 1
            return
        res.outcomes[f"c_exception:{type(e).__name__}"] += 1
        res.violation("c_total", case, f"ctfTR raised {type(e).__name__}: {e} on a validated input", finding="c_exception", fkey=fkey)
        return
    if out is None:
        res.outcomes["c_fail"] += 1
        return
    expr, rev = out.expression, out.event
    joint = tuple(outs) + tuple(conds)
    pj = {tuple(sorted(a.items())): fam.prob_items(ground_items(joint, a)) for a in base_assignments(g.nodes)}
    pc = {tuple(sorted(a.items())): fam.prob_items(ground_items(conds, a)) for a in base_assignments(g.nodes)}
    if isinstance(expr, Zero):
        if any(t != (0, 0) for t in pj.values()):
            res.outcomes["c_wrong_zero"] += 1
            res.violation("c_zero", case, "returned Zero() but the joint event has positive probability", finding="c_wrong_zero", fkey=fkey)
        else:
            res.outcomes["c_zero_ok"] += 1
        return
    if not isinstance(expr, Expression) or rev is None:
        res.violation("c_total", case, f"returned expression {expr!r} with event {rev!r}", fkey=fkey)
        return
    try:
        ritems = [node_to_item(k, v) for k, v in rev if v is not None]
    except Exception as e:  # noqa
        res.violation("c_total", case, f"returned event {rev!r} is malformed: {e}", fkey=fkey)
        return

    def truth(a):
        k = tuple(sorted(a.items()))
        if any(x == 0 for x in pc[k]):
            return None
        return tuple(j / c for j, c in zip(pj[k], pc[k]))

    outcome = judge_expression(
        res, expr, ritems, g, fam, fam, case, clause_prefix="c_", finding="c_wrong_value", fkey=fkey, truth_fn=truth, env_fn=transport_env
    )
    res.outcomes["c_" + outcome] += 1


def explore(res: Res, g: G, cfgs, tier, seed, only=None):
    yg = to_y0(g)
    before = snapshot(yg)
    gj = g.to_json()
    refl = tier == "thorough"  # reflexive items exercise SIMPLIFY's recorded defect (C19); quick leaves them out
    ev_space = list(events(g.nodes, 2, 1, 1, reflexive=refl))
    one = event_items(g.nodes, 1, reflexive=refl)
    for s, z in cfgs:
        fam = Family(g, s, z, seed)
        for variant in (0, 1):
            dom, ntopo = build_domain(g, s, z, variant)
            if variant == 1 and ntopo == 1 and not s:
                continue
            dj = {"S": list(s), "Z": list(z), "order": [str(v) for v in dom.ordering]}
            if only is None or "event" in only:
                for items in ev_space if only is None else [event_from_json(only["event"])]:
                    if only is not None and only["domain"] != dj:
                        continue
                    case = {"graph": gj, "domain": dj, "event": event_json(items)}
                    check_unconditional(res, g, yg, fam, dom, items, case)
            if tier == "quick" and z and only is None:
                continue  # quick: conditional queries on the policy-free domains only
            if variant == 0 and (only is None or "outcomes" in only):
                pairs = (
                    [((o,), (c,)) for o in one for c in one if (o[0], o[1]) != (c[0], c[1])]
                    if only is None
                    else [(event_from_json(only["outcomes"]), event_from_json(only["conditions"]))]
                )
                for outs, conds in pairs:
                    if only is not None and only["domain"] != dj:
                        continue
                    case = {"graph": gj, "domain": dj, "outcomes": event_json(outs), "conditions": event_json(conds)}
                    check_conditional(res, g, yg, fam, dom, outs, conds, case)
    if snapshot(yg) != before:
        res.violation("side_effect", {"graph": gj}, "the target graph was modified")


def _apply_op(y, op):
    kind, u, v = op
    if kind == "n":
        y.add_node(V(u))
    elif kind == "d":
        y.add_directed_edge(V(u), V(v))
    else:
        y.add_undirected_edge(V(u), V(v))


def _builder_judge(res, seed):
    """The caller keeps ONE target graph object and ONE selection-diagram object per source domain (no transport node,
    or one on a single variable; no policy) and adds every new edge to all of them in place; after every insertion the
    unconditional query is asked for every all-'-' non-reflexive event of up to two items (up to one subscript each)."""
    from y0.algorithm.counterfactual_transport import CFTDomain
    from y0.algorithm.transport import transport_variable
    from y0.dsl import PP, Variable
    from y0.graph import NxMixedGraph

    from ..graphs import a_topological_order
    from .C07 import canonical_graph

    state = {"y": None, "doms": {}}

    def judge(y, g, hist):
        if state["y"] is not y:
            state["y"], state["doms"] = y, {}
        cg = canonical_graph(g.nodes, g.di, g.bi)
        gj = cg.to_json()
        evs = [
            items
            for items in events(cg.nodes, 2, 1, 1, reflexive=False)
            if not any(star or any(st for _, st in subs) for _, subs, star in items)
        ]
        order = a_topological_order(cg)
        for s in [()] + [(n,) for n in cg.nodes]:
            yd = state["doms"].get(s)
            if yd is None:
                yd = state["doms"][s] = NxMixedGraph()
                for op in hist:
                    _apply_op(yd, op)
                for v in s:
                    yd.add_directed_edge(transport_variable(V(v)), V(v))
            else:
                _apply_op(yd, hist[-1])
            dom = CFTDomain(
                graph=yd,
                population=PP[Variable(POP)]([V(n) for n in cg.nodes]),
                policy_variables=set(),
                ordering=[transport_variable(V(v)) for v in s] + [V(n) for n in order],
            )
            fam = Family(cg, s, (), seed)
            dj = {"S": list(s), "Z": [], "order": [str(v) for v in dom.ordering]}
            for items in evs:
                case = {"graph": gj, "domain": dj, "event": event_json(items), "builder_ops": hist}
                check_unconditional(res, cg, y, fam, dom, items, case)
        res.outcomes["builder_step"] += 1
        return True

    return judge


def work(shard, tier, seed):
    res = Res()
    if shard[0] == "build":
        res.states += run_sequences(shard[1], 3, _builder_judge(res, seed), names=NAMES3)
        return res
    if shard[0] == "hub":
        for g in _hub_graphs(tier)[shard[1] : shard[2]]:
            explore_hub(res, g, tier, seed)
        return res
    if shard[0] == "nested":
        for g in _nested_graphs(tier)[shard[1] : shard[2]]:
            explore_nested(res, g, tier, seed)
        return res
    gi, lo, hi = shard
    g = _universe(tier)[gi]
    explore(res, g, domain_configs(g.nodes, tier)[lo:hi], tier, seed)
    return res


def replay(case, clause=None):
    import os

    res = Res()
    g = G.from_json(case["graph"])
    if "builder_ops" in case:
        replay_sequence(case["builder_ops"], _builder_judge(res, int(os.environ.get("VERIF_SEED", "0") or 0)))
        return [
            v
            for v in res.violations
            if v["input"].get("builder_ops") == case["builder_ops"] and v["input"].get("event") == case.get("event") and v["input"].get("domain") == case.get("domain")
        ][:1]
    if case.get("nested"):
        explore_nested(res, g, "thorough", int(os.environ.get("VERIF_SEED", "0") or 0), only=case)
        return list(res.violations)
    if len(g.nodes) == 4:
        explore_hub(res, g, "quick", int(os.environ.get("VERIF_SEED", "0") or 0))
        return [v for v in res.violations if v["input"].get("event") == case.get("event") and v["input"].get("domain") == case.get("domain")]
    explore(res, g, [(tuple(case["domain"]["S"]), tuple(case["domain"]["Z"]))], "thorough", int(os.environ.get("VERIF_SEED", "0") or 0), only=case)
    return list(res.violations)
