"""C19 Counterfactual event simplification and factorisation preserve probability.

(min)   minimize_counterfactual(Y_x): a well-formed variable with the same value as Y_x in every
        exogenous setting of the functional witness, for every base value assignment.
(simp)  simplify(event): an event with the same probability; None only at probability 0.
(anc)   get_ancestors_of_counterfactual == an independent implementation of Definition 2.1.
(comp)  get_ancestral_components == an independent implementation of Definition 4.2 (roots: one or two
        counterfactual variables, conditioned: any subset of them).
(fact)  do_counterfactual_factor_factorization: the sum-product, evaluated with multi-world joint terms
        obtained by noise enumeration, equals the query's probability.
State space: graph x counterfactual variable (every consistent subscript assignment, incl. irrelevant
and reflexive subscripts) / events of up to two items (repeated variables allowed).
"""

from __future__ import annotations

from functools import lru_cache
import itertools as itt

from ..builder import NAMES3, build_ops, replay_sequence, run_sequences
from ..ctf import base_assignments, event_from_json, event_items, event_json, ground_items, item_key, node_to_item, sub_assignments, val
from ..fscm import FSCM
from ..graphs import G, ancestors_inc, enum_L, enum_O, remove_in_edges, remove_out_edges
from ..runner import Res, fkey_of
from ..y0util import V, snapshot, to_y0
from .C07 import Pair, TwoWitness, judge_expression

TITLE = "Counterfactual event simplification and factorisation preserve probability"


@lru_cache(maxsize=None)
def _universe(tier):
    if tier == "quick":
        return [g for n in (1, 2, 3) for g in enum_O(n)]
    return [g for n in (1, 2, 3) for g in enum_L(n)] + list(enum_O(4, max_edges=3))


@lru_cache(maxsize=None)
def _universe4(tier):
    """Four-node graphs on which the definitional clauses (ancestors, relevant subscripts) are checked: nested
    interventions (one subscript an ancestor of another, both above a mediator) need a directed path of three edges."""
    return list(enum_O(4, max_edges=4 if tier == "quick" else 5))


def shards(tier):
    n = len(_universe(tier))
    idx = sorted(range(n), key=lambda i: -len(_universe(tier)[i].nodes))
    out = [(i, i + 1) for i in idx]
    out += [("def4", i, i + 16) for i in range(0, len(_universe4(tier)), 16)]
    # builder phase: one live graph object grown edge by edge, everything asked again after every insertion
    out += [("build", i) for i in range(len(build_ops(NAMES3)))]
    return out


def describe(tier):
    return {
        "bound": ("graphs O(1..3)" if tier == "quick" else "graphs L(1..3) + O(4, <=3 edges)")
        + "; every counterfactual variable with every consistent subscript assignment (all sizes, incl. reflexive); events "
        "of one item (all subscript sizes) and of two items (up to 1 subscript each, repeated variables allowed); values - "
        "and +; three-node graphs: SIMPLIFY also on every pair of non-reflexive items with up to two subscripts each; every base value assignment; every exogenous setting; definitional clauses (ancestors == Def. 2.1, minimisation "
        "keeps every relevant subscript and adds none) for every variable and subscript assignment on "
        + ("O(4, <=4 edges)" if tier == "quick" else "O(4, <=5 edges)")
        + "; builder sequences: every sequence of 3 edge insertions over 3 names on one live graph object, the clauses without recorded findings "
        "asked after every insertion (ancestors, minimisation, components)",
        "rule": "state = (graph, variable) or (graph, event); transition = one call of minimize_counterfactual / simplify / "
        "get_ancestors_of_counterfactual / do_counterfactual_factor_factorization compared with the functional witness "
        "(setting by setting, or by event probability) or with the definition-based reference",
        "assumptions": ["two binary functional witness SCMs stand in for 'all SCMs'"],
    }


def ref_ancestors(g: G, v, subs):
    """Definition 2.1 of Correa, Lee, Bareinboim (2022): An(Y_x) = { W_z : W in An(Y) in G with edges out of X removed,
    z = x restricted to An(W) in G with edges into X removed }."""
    xs = [n for n, _ in subs]
    anc = ancestors_inc(remove_out_edges(g, xs), [v])
    g_in = remove_in_edges(g, xs)
    out = set()
    for w in anc:
        aw = ancestors_inc(g_in, [w])
        z = tuple(sorted((n, s) for n, s in subs if n in aw))
        out.add((w, z))
    return out


def ref_minimize(g: G, v, subs):
    xs = [n for n, _ in subs]
    t = set(ancestors_inc(remove_in_edges(g, xs), [v])) & set(xs)
    return (v, tuple(sorted((n, s) for n, s in subs if n in t)))


def ref_ancestral_components(g: G, roots, cond):
    """Definition 4.2: ancestral sets An(W_t) in G with the edges out of X_*(W_t) removed, where X_*(W_t) are the vertices
    of the minimised conditioned variables that are ancestors of W_t; sets are united when they share a counterfactual
    variable or a bidirected edge of G joins a variable of one with a variable of the other."""
    min_cond = {ref_minimize(g, v, subs) for v, subs in cond}
    sets = []
    for w, t in roots:
        anc = ref_ancestors(g, w, t)
        xw = {v for v, subs in min_cond if (v, subs) in anc}
        sets.append(frozenset(ref_ancestors(remove_out_edges(g, xw), w, t)))
    sets = list(dict.fromkeys(sets))
    bi = {frozenset(e) for e in g.bi}
    comp = list(range(len(sets)))

    def find(i):
        while comp[i] != i:
            i = comp[i]
        return i

    for i, j in itt.combinations(range(len(sets)), 2):
        # two worlds of one vertex share that vertex's exogenous noise, so sets that contain the same vertex (even in
        # different worlds) are linked as well -- the reading under which the components are independent of each other
        linked = (
            bool(sets[i] & sets[j])
            or bool({a[0] for a in sets[i]} & {b[0] for b in sets[j]})
            or any(frozenset((a[0], b[0])) in bi for a in sets[i] for b in sets[j])
        )
        if linked:
            comp[find(i)] = find(j)
    out = {}
    for i, s_ in enumerate(sets):
        out.setdefault(find(i), set()).update(s_)
    return frozenset(frozenset(x) for x in out.values())


def check_components(res: Res, g: G, yg, roots, cond, case):
    from y0.algorithm.counterfactual_transport.ancestor_utils import get_ancestral_components
    from y0.dsl import CounterfactualVariable

    res.states += 1
    res.transitions += 1

    def key(x):
        return (str(x.name), tuple(sorted((i.name, bool(i.star)) for i in x.interventions)) if isinstance(x, CounterfactualVariable) else ())

    try:
        got = get_ancestral_components(
            conditioned_variables={item_key((v, subs, False)) for v, subs in cond},
            root_variables={item_key((v, subs, False)) for v, subs in roots},
            graph=yg,
        )
    except Exception as e:  # noqa
        res.violation("components", case, f"get_ancestral_components raised {type(e).__name__}: {e}", finding="components_exception", fkey=fkey_of("C19c", {k: case[k] for k in ("graph", "roots", "conditioned")}))
        return
    got_k = frozenset(frozenset(key(x) for x in comp) for comp in got)
    want = ref_ancestral_components(g, roots, cond)
    if got_k != want:
        res.violation(
            "components",
            case,
            f"get_ancestral_components gives {sorted(map(sorted, got_k))}, Definition 4.2 gives {sorted(map(sorted, want))}",
            finding="components_differ",
            fkey=fkey_of("C19c", {k: case[k] for k in ("graph", "roots", "conditioned")}),
        )
        res.outcomes["components_wrong"] += 1
    else:
        res.outcomes["components_ok"] += 1


def check_variable(res: Res, g: G, yg, m, v, subs, case):
    from y0.algorithm.counterfactual_transport.ancestor_utils import get_ancestors_of_counterfactual, minimize_counterfactual
    from y0.dsl import CounterfactualVariable, Variable

    var = item_key((v, subs, False))
    # (anc)
    res.states += 1
    res.transitions += 1
    try:
        got = get_ancestors_of_counterfactual(var, yg)
        got_k = {(str(x.name), tuple(sorted((i.name, bool(i.star)) for i in x.interventions)) if isinstance(x, CounterfactualVariable) else ()) for x in got}
        want = ref_ancestors(g, v, subs)
        if got_k != want:
            res.violation("ancestors", case, f"get_ancestors_of_counterfactual({var}) = {sorted(map(str, got))}, Definition 2.1 gives {sorted(want)}")
        else:
            res.outcomes["ancestors_ok"] += 1
    except Exception as e:  # noqa
        res.violation("ancestors", case, f"get_ancestors_of_counterfactual({var}) raised {type(e).__name__}: {e}")
    # (min)
    res.transitions += 1
    try:
        mv = minimize_counterfactual(var, yg)
    except Exception as e:  # noqa
        res.violation("minimize", case, f"minimize_counterfactual({var}) raised {type(e).__name__}: {e}", finding=None)
        res.outcomes["minimize_raised"] += 1
        return
    ok = isinstance(mv, Variable) and mv.name == v and mv.star is None
    if isinstance(mv, CounterfactualVariable) and not mv.interventions:
        ok = False
    if not ok:
        res.violation("minimize", case, f"minimize_counterfactual({var}) returned the malformed {mv!r}")
        return
    msubs = tuple(sorted((i.name, bool(i.star)) for i in mv.interventions)) if isinstance(mv, CounterfactualVariable) else ()
    if not set(msubs) <= set(subs):
        res.violation("minimize", case, f"minimised variable {mv} has subscripts that {var} does not have")
        return
    for a in base_assignments(g.nodes):
        w1 = frozenset((n, val(a, n, s)) for n, s in subs)
        w2 = frozenset((n, val(a, n, s)) for n, s in msubs)
        for fm in m.ms:
            res.transitions += 1
            if [x[fm.index[v]] for x in fm.solve(w1)] != [x[fm.index[v]] for x in fm.solve(w2)]:
                res.violation("minimize", dict(case, base=a), f"{var} and its minimisation {mv} differ in some exogenous setting")
                res.outcomes["minimize_wrong"] += 1
                return
    res.outcomes["minimize_ok"] += 1


def check_event(res: Res, g: G, yg, m, items, case, simplify_only=False):
    from y0.algorithm.counterfactual_transport.api import do_counterfactual_factor_factorization, simplify
    from y0.dsl import Intervention

    ev = [(item_key(it), Intervention(name=it[0], star=it[2])) for it in items]
    truths = {tuple(sorted(a.items())): m.prob_items(ground_items(items, a)) for a in base_assignments(g.nodes)}
    # (simp)
    res.states += 1
    res.transitions += 1
    fkey = fkey_of("C19s", case["graph"], case["event"])
    try:
        out = simplify(event=list(ev), graph=yg)
    except Exception as e:  # noqa
        res.violation("simplify", case, f"simplify raised {type(e).__name__}: {e}", finding="simplify_exception", fkey=fkey)
        res.outcomes["simplify_raised"] += 1
        out = "exc"
    if out is None:
        if any(t != (0, 0) for t in truths.values()):
            res.violation("simplify", case, f"simplify says impossible, the event has probability {max(truths.values())}", finding="simplify_wrong_none", fkey=fkey)
        else:
            res.outcomes["simplify_none_ok"] += 1
    elif out != "exc":
        try:
            new_items = [node_to_item(k, v) for k, v in out]
        except Exception as e:  # noqa
            res.violation("simplify", case, f"simplify returned the malformed {out!r}: {e}", fkey=fkey)
            new_items = None
        if new_items is not None:
            bad = None
            for a in base_assignments(g.nodes):
                res.transitions += 1
                got = m.prob_items(ground_items(new_items, a))
                if got != truths[tuple(sorted(a.items()))]:
                    bad = (a, got)
                    break
            if bad:
                res.violation(
                    "simplify",
                    dict(case, base=bad[0]),
                    f"simplified event {out} has probability {bad[1]}, the original {truths[tuple(sorted(bad[0].items()))]}",
                    finding="simplify_changes_probability",
                    fkey=fkey,
                )
                res.outcomes["simplify_wrong"] += 1
            else:
                res.outcomes["simplify_ok"] += 1
    if simplify_only:
        return
    # (fact): queries over distinct variables-in-worlds without reflexive subscripts (redundant subscripts are allowed:
    # the factorisation must recognise a query variable whatever irrelevant subscripts it carries)
    if len({(it[0], it[1]) for it in items}) != len(items):
        return
    for v, subs, _ in items:
        if v in [n for n, _ in subs]:
            return
    res.transitions += 1
    fkey2 = fkey_of("C19f", case["graph"], case["event"])
    try:
        expr, rev = do_counterfactual_factor_factorization(variables=list(ev), graph=yg)
    except Exception as e:  # noqa
        res.violation("factorization", case, f"do_counterfactual_factor_factorization raised {type(e).__name__}: {e}", finding="factorization_exception", fkey=fkey2)
        res.outcomes["factorization_raised"] += 1
        return
    outcome = judge_expression(res, expr, items, g, m, m, case, clause_prefix="factorization_", finding="factorization_wrong_value", fkey=fkey2)
    res.outcomes["factorization_" + outcome] += 1


def check_variable_def(res: Res, g: G, yg, v, subs, case):
    """Definitional clauses only (no witness): ancestors == Definition 2.1; the minimised variable keeps every subscript
    that is an ancestor of v once the edges into the subscripts are cut (dropping one changes the variable in a generic
    model) and has no subscript that v_subs does not have."""
    from y0.algorithm.counterfactual_transport.ancestor_utils import get_ancestors_of_counterfactual, minimize_counterfactual
    from y0.dsl import CounterfactualVariable, Variable

    var = item_key((v, subs, False))
    res.states += 1
    res.transitions += 2
    try:
        got = get_ancestors_of_counterfactual(var, yg)
        got_k = {(str(x.name), tuple(sorted((i.name, bool(i.star)) for i in x.interventions)) if isinstance(x, CounterfactualVariable) else ()) for x in got}
        want = ref_ancestors(g, v, subs)
        if got_k != want:
            res.violation("ancestors", case, f"get_ancestors_of_counterfactual({var}) = {sorted(map(str, got))}, Definition 2.1 gives {sorted(want)}")
        else:
            res.outcomes["ancestors_ok"] += 1
    except Exception as e:  # noqa
        res.violation("ancestors", case, f"get_ancestors_of_counterfactual({var}) raised {type(e).__name__}: {e}")
    try:
        mv = minimize_counterfactual(var, yg)
    except Exception as e:  # noqa
        res.violation("minimize", case, f"minimize_counterfactual({var}) raised {type(e).__name__}: {e}")
        return
    if not (isinstance(mv, Variable) and mv.name == v and mv.star is None) or (isinstance(mv, CounterfactualVariable) and not mv.interventions):
        res.violation("minimize", case, f"minimize_counterfactual({var}) returned the malformed {mv!r}")
        return
    msubs = set((i.name, bool(i.star)) for i in mv.interventions) if isinstance(mv, CounterfactualVariable) else set()
    need = set(ref_minimize(g, v, subs)[1])
    if not msubs <= set(subs) or not need <= msubs:
        res.violation("minimize", case, f"minimize_counterfactual({var}) = {mv}: relevant subscripts are {sorted(need)}")
        res.outcomes["minimize_wrong"] += 1
    else:
        res.outcomes["minimize_def_ok"] += 1


def explore_def4(res: Res, g: G, only=None):
    yg = to_y0(g)
    for v in g.nodes:
        for subs in sub_assignments(g.nodes, len(g.nodes)):
            if not subs or v in dict(subs):
                continue
            if only and (v, subs) != only:
                continue
            case = {"graph": g.to_json(), "variable": [v, [[a, "+" if s else "-"] for a, s in subs]]}
            check_variable_def(res, g, yg, v, subs, case)


def _builder_judge(res, seed):
    from .C07 import canonical_graph

    def judge(y, g, hist):
        cg = canonical_graph(g.nodes, g.di, g.bi)
        before = sum(res.nviol.values())
        # the clauses without recorded findings: ancestors, minimisation, ancestral components (SIMPLIFY and the
        # factorisation have listed failing inputs, identified by graph and event, in the enumerated universe only)
        explore_graph(res, cg, "quick", seed, yg=y, extra={"builder_ops": hist}, parts=("variable", "components"))
        if sum(res.nviol.values()) > before:
            res.outcomes["step_with_violations"] += 1
        else:
            res.outcomes["builder_step_ok"] += 1
        return True  # keep growing: recorded findings of the counterfactual layer reproduce at most steps

    return judge


def explore_graph(res: Res, g: G, tier, seed, only=None, yg=None, extra=None, parts=("variable", "event", "components")):
    yg = to_y0(g) if yg is None else yg
    before = snapshot(yg)
    m = TwoWitness(FSCM(g, salt=f"f{seed}"), FSCM(g, salt=f"g{seed}"))
    n = len(g.nodes)
    if (only is None or only[0] == "variable") and "variable" in parts:
        for v in g.nodes:
            for subs in sub_assignments(g.nodes, n):
                if not subs:
                    continue
                if only and (v, subs) != only[1]:
                    continue
                case = dict({"graph": g.to_json(), "variable": [v, [[a, "+" if s else "-"] for a, s in subs]]}, **(extra or {}))
                check_variable(res, g, yg, m, v, subs, case)
    if (only is None or only[0] == "event") and "event" in parts:
        singles = event_items(g.nodes, n)
        small = event_items(g.nodes, 1)
        evs = [(it,) for it in singles] + [(a, b) for i, a in enumerate(small) for b in small[i:]]
        for items in evs if only is None else [only[1]]:
            case = dict({"graph": g.to_json(), "event": event_json(items)}, **(extra or {}))
            if len(res.samples) < 3 and len(items) == 2 and items[0][1]:
                res.sample(case)
            check_event(res, g, yg, m, items, case)
        if only is None and n == 3 and extra is None:
            # two-world pairs for SIMPLIFY: pairs of non-reflexive items with up to two subscripts each, at least one of them
            # with two (one variable in two worlds over the same intervened names, a droppable subscript next to a relevant
            # one; after seeded C19-g); judged on the simplify clause only
            big = [it for it in event_items(g.nodes, 2, reflexive=False)]
            for i, a in enumerate(big):
                for b in big[i + 1 :]:
                    if len(a[1]) < 2 and len(b[1]) < 2:
                        continue  # covered above
                    items = (a, b)
                    case = {"graph": g.to_json(), "event": event_json(items), "simplify_only": True}
                    check_event(res, g, yg, m, items, case, simplify_only=True)
    if (only is None or only[0] == "components") and "components" in parts:
        # (comp) roots: one or two counterfactual variables (up to 1 subscript, non-reflexive); conditioned: any subset
        cvars = [(v, subs) for v in g.nodes for subs in sub_assignments(g.nodes, 1) if v not in dict(subs)]
        root_sets = [(a,) for a in cvars] + list(itt.combinations(cvars, 2))
        for roots in root_sets:
            for k in range(len(roots) + 1):
                for cond in itt.combinations(roots, k):
                    case = {
                        "graph": g.to_json(),
                        "roots": [[v, [[a, "+" if s else "-"] for a, s in subs]] for v, subs in roots],
                        "conditioned": [[v, [[a, "+" if s else "-"] for a, s in subs]] for v, subs in cond],
                    }
                    if only is not None and (case["roots"], case["conditioned"]) != only[1]:
                        continue
                    case.update(extra or {})
                    check_components(res, g, yg, roots, cond, case)
    if snapshot(yg) != before:
        res.violation("side_effect", {"graph": g.to_json()}, "the caller's graph was modified")


def work(shard, tier, seed):
    res = Res()
    if shard[0] == "build":
        res.states += run_sequences(shard[1], 3, _builder_judge(res, seed), names=NAMES3)
        return res
    if shard[0] == "def4":
        for g in _universe4(tier)[shard[1] : shard[2]]:
            explore_def4(res, g)
        return res
    lo, hi = shard
    for g in _universe(tier)[lo:hi]:
        explore_graph(res, g, tier, seed)
    return res


def replay(case, clause=None):
    import os

    res = Res()
    g = G.from_json(case["graph"])
    if "builder_ops" in case:
        replay_sequence(case["builder_ops"], _builder_judge(res, int(os.environ.get("VERIF_SEED", "0") or 0)))
        keys = [k for k in ("variable", "event", "roots", "conditioned") if k in case]
        return [v for v in res.violations if v["input"].get("builder_ops") == case["builder_ops"] and all(v["input"].get(k) == case[k] for k in keys)][:1]
    if len(g.nodes) == 4 and "variable" in case and len(g.di) + len(g.bi) > 3:
        v, subs = case["variable"]
        explore_def4(res, g, only=(v, tuple((a, s == "+") for a, s in subs)))
        return list(res.violations)
    if "roots" in case:
        only = ("components", (case["roots"], case["conditioned"]))
    elif "variable" in case:
        v, subs = case["variable"]
        only = ("variable", (v, tuple((a, s == "+") for a, s in subs)))
    else:
        only = ("event", event_from_json(case["event"]))
    explore_graph(res, g, "thorough", int(os.environ.get("VERIF_SEED", "0") or 0), only=only)
    if case.get("simplify_only"):
        return [v for v in res.violations if v["clause"] == "simplify"]
    return list(res.violations)
