"""C08 IDC* estimands equal the conditional counterfactual probability.

State space: graph x (outcome conjunction, non-empty condition conjunction) of counterfactual event
items x every base value assignment.
Oracle (two functional witness SCMs, exhaustive noise enumeration): the returned expression equals
P(outcomes and conditions) / P(conditions) whenever P(conditions) > 0; Zero() only if the joint event
has probability 0; a conditioning event of probability 0 must be rejected (ValueError), never
answered (any exception counts as a refusal: the property does not promise an answer).
"""

from __future__ import annotations

from functools import lru_cache
import itertools as itt

from ..ctf import base_assignments, event_from_json, event_items, event_json, ground_items, to_event
from ..fscm import FSCM
from ..graphs import G, enum_L, enum_O
from ..runner import Res, fkey_of
from ..y0util import snapshot, to_y0
from .C07 import TRIGGERS, Pair, TwoWitness, classify, install_probes, judge_expression

TITLE = "IDC* estimands equal the conditional counterfactual probability"


@lru_cache(maxsize=None)
def _universe(tier):
    if tier == "quick":
        return [g for n in (1, 2, 3) for g in enum_O(n)]
    return [g for n in (1, 2, 3) for g in enum_L(n)]


def query_space(g: G, tier):
    """(outcome items, condition items) with distinct keys."""
    one = event_items(g.nodes, 1)
    two = event_items(g.nodes, 2 if tier == "thorough" else 1)
    for o in two:
        for c in one:
            if (o[0], o[1]) != (c[0], c[1]):
                yield (o,), (c,)
    # factual queries with two conditions or two outcomes over distinct variables, in both listing orders
    fact = event_items(g.nodes, 0)
    for a, b, c in itt.permutations(fact, 3):
        if len({a[0], b[0], c[0]}) == 3:
            yield (a,), (b, c)
            yield (a, b), (c,)
    if tier == "thorough":
        zero = event_items(g.nodes, 1)
        for o1, o2 in itt.combinations(zero, 2):
            if (o1[0], o1[1]) == (o2[0], o2[1]):
                continue
            for c in event_items(g.nodes, 0):
                if (c[0], c[1]) not in {(o1[0], o1[1]), (o2[0], o2[1])}:
                    yield (o1, o2), (c,)


def shards(tier):
    n = len(_universe(tier))
    idx = sorted(range(n), key=lambda i: -len(_universe(tier)[i].nodes))
    return [(i, i + 1) for i in idx]


def describe(tier):
    return {
        "bound": (
            "graphs O(1..3); one outcome item and one condition item, each with up to 1 subscript; factual queries with two "
            "conditions or two outcomes in both listing orders"
            if tier == "quick"
            else "graphs L(1..3); (outcome with up to 2 subscripts | condition with up to 1) and (two outcomes with up to 1 "
            "subscript | factual condition)"
        )
        + "; subscripts may include the variable itself; values - and +; every base value assignment",
        "rule": "state = (graph, outcomes, conditions); transition = one idc_star call whose result is evaluated on two "
        "functional witness SCMs and compared with P(outcomes, conditions)/P(conditions) by noise enumeration",
        "assumptions": [
            "binary functional witness SCMs stand in for 'all SCMs'",
            "reading of the result as in C07 (un-starred N = the query's own value of N, -N / +N literal, Sum binds N and -N)",
        ],
    }


def check_query(res: Res, g: G, yg, m, outs, conds, case):
    from y0.algorithm.identify import Unidentifiable
    from y0.algorithm.identify.idc_star import idc_star
    from y0.dsl import Expression, Zero

    res.states += 1
    res.transitions += 1
    o_ev, c_ev = to_event(outs), to_event(conds)
    before = snapshot(yg)
    fkey = fkey_of("C08", case["graph"], case["outcomes"], case["conditions"])
    joint_items = tuple(outs) + tuple(conds)
    p_cond = {tuple(sorted(a.items())): m.prob_items(ground_items(conds, a)) for a in base_assignments(g.nodes)}
    p_joint = {tuple(sorted(a.items())): m.prob_items(ground_items(joint_items, a)) for a in base_assignments(g.nodes)}
    cond_impossible = all(v == (0, 0) for v in p_cond.values())
    probes_ok = install_probes()
    TRIGGERS.clear()
    try:
        est = idc_star(yg, dict(o_ev), dict(c_ev))
    except Unidentifiable:
        res.outcomes["unidentifiable"] += 1
        return
    except ValueError as e:
        if cond_impossible:
            res.outcomes["rejected_impossible_condition"] += 1
        else:
            res.outcomes["rejected_possible_condition"] += 1
            res.violation("reject", case, f"rejected with ValueError({e}) although the condition has positive probability", finding="rejects_possible_condition", fkey=fkey)
        return
    except Exception as e:  # noqa
        # the property constrains what IDC* answers; it does not promise an answer, so any failure is a refusal (counted)
        res.outcomes[f"exception:{type(e).__name__}"] += 1
        return
    if snapshot(yg) != before:
        res.violation("side_effect", case, "idc_star modified the caller's graph")
    if not isinstance(est, Expression):
        res.violation("total", case, f"idc_star returned {type(est).__name__}")
        return
    if cond_impossible:
        res.outcomes["answered_impossible_condition"] += 1
        res.violation("reject", case, f"answered {est} although the conditioning event is impossible", finding="answers_impossible_condition", fkey=fkey)
        return
    if isinstance(est, Zero):
        if any(v != (0, 0) for v in p_joint.values()):
            res.outcomes["wrong_zero"] += 1
            res.violation("zero", case, "returned Zero() but the joint event has positive probability", finding=classify(joint_items, set(TRIGGERS), probes_ok) or "other_pinned_behaviour", fkey=fkey)
        else:
            res.outcomes["zero_correct"] += 1
        return

    def truth(a):
        k = tuple(sorted(a.items()))
        pc = p_cond[k]
        if any(x == 0 for x in pc):
            return None
        return tuple(j / c for j, c in zip(p_joint[k], pc))

    cls = classify(joint_items, set(TRIGGERS), probes_ok)
    if cls is None and len(conds) > 1:
        cls = "rule2_ignores_other_conditions"
    out = judge_expression(res, est, joint_items, g, m, m, case, finding=cls, fkey=fkey, truth_fn=truth)
    res.outcomes["estimand_" + out] += 1


def explore_graph(res: Res, g: G, tier, seed, only=None):
    yg = to_y0(g)
    m = TwoWitness(FSCM(g, salt=f"f{seed}"), FSCM(g, salt=f"g{seed}"))
    for outs, conds in query_space(g, tier) if only is None else [only]:
        case = {"graph": g.to_json(), "outcomes": event_json(outs), "conditions": event_json(conds)}
        if len(res.samples) < 3 and outs[0][1] and g.bi:
            res.sample(case)
        check_query(res, g, yg, m, outs, conds, case)


def work(shard, tier, seed):
    lo, hi = shard
    res = Res()
    for g in _universe(tier)[lo:hi]:
        explore_graph(res, g, tier, seed)
    return res


def replay(case, clause=None):
    import os

    res = Res()
    explore_graph(
        res,
        G.from_json(case["graph"]),
        "thorough",
        int(os.environ.get("VERIF_SEED", "0") or 0),
        only=(event_from_json(case["outcomes"]), event_from_json(case["conditions"])),
    )
    return [v for v in res.violations if clause is None or v["clause"] == clause]
