"""C13 DSL operators and rewrite helpers are identities of probability calculus.

State space: every expression reachable from the atom alphabet by at most one operation; transitions:
every operation of the menu applied to each of them (binary operations with every atom on either side,
ranges/conditions every non-empty subset of {A, B, C}, expansion helpers with every ordering).
Oracle: the value function of the result equals the mathematical operation applied to the value
functions of the arguments, at every value assignment where the latter is defined, on generic tables.
"""

from __future__ import annotations

from ..exprs import PLANS, Explorer, case_of, level, plan_shards, rebuild
from ..runner import Res

TITLE = "DSL operators and rewrite helpers are identities of probability calculus"
JUDGED = {
    "mul",
    "rmul",
    "div",
    "rdiv",
    "sum",
    "marginalize",
    "conditional",
    "fraction_simplify",
    "sum_simplify",
    "chain_expand",
    "fraction_expand",
    "bayes_expand",
    "contract",
    "recursive_contract",
}


def shards(tier):
    return plan_shards(tier, 8 if tier == "quick" else 64) + [("xw", 0, 0, 0)]


# ---------------------------------------------------------------- cross-world joints (contract)
# The table worlds of the BFS give one joint per single world, so a distribution over several worlds of one variable
# (P(A @ -C, A @ +C), the objects ID* and ctfTR work with) cannot be valued there.  This slice values them directly: every
# distinct DSL variable (base name + intervention set) is its own coordinate of one arbitrary positive joint table.


def _xw_pool():
    from y0.dsl import Variable

    A, B, C = Variable("A"), Variable("B"), Variable("C")
    return [A, A @ -C, A @ +C, B, B @ -C]


def _xw_joint(pool, seed):
    import itertools as itt

    from ..scm import h

    return {vals: 1 + h("xw", seed, vals) % 29 for vals in itt.product((0, 1), repeat=len(pool))}


def _xw_eval(e, env, pool, table):
    from fractions import Fraction as Fr

    from y0.dsl import Fraction, One, Probability, Product

    def joint(vs):
        idx = [(pool.index(v), env[v]) for v in vs]
        if len({i for i, _ in idx}) != len(set(idx)):
            return Fr(0)  # one variable asked to take two values
        return Fr(sum(w for k, w in table.items() if all(k[i] == x for i, x in idx)), sum(table.values()))

    if isinstance(e, One):
        return Fr(1)
    if isinstance(e, Probability):
        den = joint(e.parents)
        return joint(tuple(e.children) + tuple(e.parents)) / den
    if isinstance(e, Fraction):
        return _xw_eval(e.numerator, env, pool, table) / _xw_eval(e.denominator, env, pool, table)
    if isinstance(e, Product):
        out = Fr(1)
        for x in e.expressions:
            out *= _xw_eval(x, env, pool, table)
        return out
    raise TypeError(f"unexpected node {type(e).__name__} in a contracted fraction")


def explore_cross_world(res: Res, seed, only=None):
    import itertools as itt

    from y0.dsl import P
    from y0.mutate.contract import contract, recursive_contract

    pool = _xw_pool()
    table = _xw_joint(pool, seed)
    envs = [dict(zip(pool, vals)) for vals in itt.product((0, 1), repeat=len(pool))]
    for num in (c for r in (2, 3) for c in itt.combinations(range(len(pool)), r)):
        for den in (c for r in (1, 2) for c in itt.combinations(range(len(pool)), r)):
            frac = P(*[pool[i] for i in num]) / P(*[pool[i] for i in den])
            for fname, fn in (("contract", contract), ("recursive_contract", recursive_contract)):
                case = {"cross_world": True, "numerator": list(num), "denominator": list(den), "helper": fname, "expr": str(frac)}
                if only and (only["numerator"], only["denominator"], only["helper"]) != (list(num), list(den), fname):
                    continue
                res.states += 1
                res.transitions += 1
                try:
                    out = fn(frac)
                except Exception as e:  # noqa
                    res.violation("contract_cross_world", case, f"{fname}({frac}) raised {type(e).__name__}: {e}")
                    continue
                bad = None
                for env in envs:
                    try:
                        got, want = _xw_eval(out, env, pool, table), _xw_eval(frac, env, pool, table)
                    except Exception as e:  # noqa
                        bad = f"cannot be valued: {type(e).__name__}: {e}"
                        break
                    if got != want:
                        bad = f"evaluates to {got}, the fraction to {want}"
                        break
                if bad:
                    res.violation("contract_cross_world", case, f"{fname}({frac}) = {out} {bad}")
                    res.outcomes["cross_world_wrong"] += 1
                else:
                    res.outcomes["cross_world_identity_holds"] += 1


def describe(tier):
    parts = []
    for alpha, depth in PLANS[tier]:
        al, sts = level(alpha, depth)
        parts.append(
            f"{len(al)}-atom alphabet: source states = the {len(sts)} expressions at most {depth} operation(s) from an atom, "
            f"every operation of the menu applied to each (results are {depth + 1} operations deep)"
        )
    return {
        "bound": "variables A, B, C with 2, 3, 2 values; atoms are joint, conditional, interventional and population-tagged "
        "probabilities, One, Zero; " + "; ".join(parts) + "; "
        + ("two generic table worlds" if tier == "thorough" else "one generic table world")
        + "; every value assignment of the free variables; cross-world slice: contract / recursive_contract on every quotient of a "
        "joint over 2-3 of the variables {A, A@-C, A@+C, B, B@-C} by a joint over 1-2 of them, valued on one arbitrary positive "
        "table in which every distinct variable (name + intervention set) is its own coordinate",
        "rule": "state = expression object (dedup by exact structure); transition = one DSL operator / helper call whose "
        "result's value function is compared with the mathematical operation on the arguments' value functions",
        "assumptions": [
            "conditioning e.conditional(R) means e divided by the sum of e over the outcome (non-subscript) variables of e "
            "outside R; intervention subscripts are parameters, not summation variables",
            "a/Zero() raising ZeroDivisionError is legitimate",
            "generic tables: one arbitrary positive joint per (population, intervention assignment)",
        ],
    }


def on_transition(ex: Explorer, res: Res, st, op, desc, ref, rs, exc):
    from ..exprs import ref_value
    from y0.predicates import has_markov_postcondition

    if op not in JUDGED:
        return
    case = case_of(st, {"op": desc, "alpha": ex.alpha})
    if exc is not None:
        if isinstance(exc, ZeroDivisionError):
            res.outcomes["zero_division_refused"] += 1
            return
        res.outcomes["raised"] += 1
        res.violation(op, case, f"{desc} on {st.expr} raised {type(exc).__name__}: {exc}", finding=classify(st, op, desc, None))
        return
    if rs.err:
        res.violation(op, case, f"{desc} on {st.expr} gave unreadable {rs.expr}: {rs.err}")
        return
    if st.err:
        return
    from ..exprs import marked_only_sum_index

    if marked_only_sum_index(st.expr) or marked_only_sum_index(rs.expr):
        res.outcomes["marked_only_sum_index_not_judged"] += 1
        return
    atom_free = ex.atom_states[__import__("mc.exprs", fromlist=["struct_key"]).struct_key(ref[1])].free if ref[0] in ("mul", "div") else set()
    judged = 0
    for world in ex.worlds:
        for env in ex.envs_for(st.free, rs.free, atom_free):
            want = ref_value(ref, st, env, world, ex.atom_states)
            if want is None:
                continue
            judged += 1
            got = rs.value(env, world)
            if got != want:
                res.outcomes["wrong_value"] += 1
                res.violation(
                    op,
                    dict(case, env={f"{n}{'' if s is None else ('+' if s else '-')}": v for (n, s), v in sorted(env.items(), key=str)}),
                    f"{desc} on e = {st.expr} gave {rs.expr} which evaluates to {got}; the operation on the value of e gives {want}",
                    finding=classify(st, op, desc, rs),
                )
                return
    if ref[0] == "id_markov":
        try:
            ok = has_markov_postcondition(rs.expr)
        except TypeError:
            ok = False
        if not ok:
            res.violation(op, case, f"{desc} gave {rs.expr} which is not a product of single-child conditional factors")
            return
    res.outcomes["identity_holds" if judged else "undefined_everywhere"] += 1
    if len(res.samples) < 3 and len(st.hist) > 1 and judged:
        res.sample(dict(case, result=str(rs.expr)))


def classify(st, op, desc, rs):
    return None


def work(shard, tier, seed):
    alpha, depth, lo, hi = shard
    res = Res()
    if alpha == "xw":
        explore_cross_world(res, seed)
        return res
    ex = Explorer(alpha, depth, seed, tier=tier)
    ex.run(res, lo, hi, on_state=lambda *a: None, on_transition=on_transition)
    return res


def replay(case, clause=None):
    import os

    alpha = case.get("alpha", "a24")
    res = Res()
    if case.get("cross_world"):
        explore_cross_world(res, int(os.environ.get("VERIF_SEED", "0") or 0), only=case)
        return list(res.violations)
    ex = Explorer(alpha, 0, int(os.environ.get("VERIF_SEED", "0") or 0), tier="thorough")
    st = rebuild(case["ops"], alpha)
    from ..exprs import State, menu

    for op, desc, thunk, ref in menu(st.expr, ex.atom_list, ex.tier):
        if desc != case.get("op"):
            continue
        try:
            r, exc = thunk(), None
        except Exception as e:  # noqa
            r, exc = None, e
        on_transition(ex, res, st, op, desc, ref, State(r, st.hist + [desc]) if r is not None else None, exc)
    return list(res.violations)
