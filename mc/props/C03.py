"""C03 IDC estimands equal the true conditional interventional distribution.

State space: graph x (X, Y, Z) pairwise disjoint, Y and Z non-empty, X possibly empty x witness
profile x every value assignment.  Oracle: estimand value == P(y, z | do x) / P(z | do x) on the
witness SCM; any outcome other than an estimand or the 'unidentifiable' refusal is a violation.
Both entry points (identify_outcomes(conditions=...) and idc(Identification)) are exercised.
"""

from __future__ import annotations

from functools import lru_cache

from ..builder import NAMES3, build_ops, replay_sequence, run_sequences
from ..graphs import G, disjoint_triples, enum_L, enum_O
from ..runner import Res
from ..scm import SCM, World
from ..semantics import Malformed, MultiWorld, Undefined, compile_expr, envs
from ..y0util import V, snapshot, to_y0
from .C01 import profiles

TITLE = "IDC estimands equal the true conditional interventional distribution"


@lru_cache(maxsize=None)
def _colliders5(tier):
    """Five-node name-ordered ADMGs that contain a collider with at least three parents (the smallest shape on which
    'marry the parents' differs between a clique and a chain; rule 2 of IDC asks d-separation questions on it), with at most
    one (thorough: two) further edges."""
    out = []
    for g in enum_O(5, max_edges=4 if tier == "quick" else 5):
        if any(sum(1 for _, b in g.di if b == v) >= 3 for v in g.nodes):
            out.append(g)
    return out


@lru_cache(maxsize=None)
def _universe(tier):
    if tier == "quick":
        return [g for n in (2, 3) for g in enum_L(n)] + list(enum_O(4, max_edges=4)) + _colliders5(tier)
    o4 = list(enum_O(4))
    seen = set(o4)
    return [g for n in (2, 3) for g in enum_L(n)] + o4 + [g for g in enum_L(4, max_edges=4) if g not in seen] + _colliders5(tier)


def shards(tier):
    n = len(_universe(tier))
    size = 16 if tier == "quick" else 32
    n5 = len(_colliders5(tier))
    out = [(i, i + 1) for i in range(n - n5, n)] + [(i, min(i + size, n - n5)) for i in range(0, n - n5, size)]
    # builder phase: one live graph object grown edge by edge, every (X, Y, Z) asked again after every insertion
    return out + [("build", i) for i in range(len(build_ops(NAMES3)))]


def _builder_judge(res, seed):
    def judge(y, g, hist):
        models = [("W2", SCM(g, salt=f"s{seed}"))]
        before = len(res.violations)
        for x, yy, z in disjoint_triples(g.nodes):
            case = {"builder_ops": hist, "graph": g.to_json(), "X": list(x), "Y": list(yy), "Z": list(z)}
            check_query(res, g, y, x, yy, z, models, case)
        if len(res.violations) > before:
            res.outcomes["wrong_after_mutation"] += 1
            return False
        res.outcomes["builder_step_ok"] += 1
        return True

    return judge


def describe(tier):
    return {
        "bound": (
            "graphs: L(2), L(3) all labelled ADMGs + O(4, <=4 edges)"
            if tier == "quick"
            else "graphs: L(2), L(3) + O(4) all 4096 name-ordered four-node ADMGs + L(4, <=4 edges)"
        )
        + "; five-node name-ordered ADMGs with a collider of >=3 parents (all-binary witness) and <=" + ("4" if tier == "quick" else "5") + " edges"
        + "; every (X, Y, Z) pairwise disjoint with Y, Z non-empty and X possibly empty; witness profiles: all-binary + "
        + ("two ternary profiles" if tier == "thorough" else "one ternary node")
        + "; every value assignment; builder sequences: every sequence of 3 edge insertions over 3 names on one live graph "
        "object (all three nodes present from the start), every (X, Y, Z) after every insertion",
        "rule": "state = (graph, X, Y, Z, profile); transition = one IDC call whose estimand is evaluated on the witness "
        "SCM for every assignment and compared with P(y,z|do x)/P(z|do x) by truncated factorisation",
        "assumptions": [
            "generic positive rational witness SCMs stand in for 'all SCMs' (sound for alarms)",
            "free N and -N denote the value of N in the assignment",
        ],
    }


def check_query(res: Res, g: G, yg, x, y, z, models, case):
    from y0.algorithm.identify import Identification, Query, Unidentifiable, idc, identify_outcomes

    res.states += 1
    res.transitions += 2
    before = snapshot(yg)
    xs, ys, zs = {V(n) for n in x}, {V(n) for n in y}, {V(n) for n in z}
    try:
        est = identify_outcomes(yg, treatments=set(xs), outcomes=set(ys), conditions=set(zs))
        out = "unidentifiable" if est is None else "estimand"
    except Exception as e:  # noqa
        res.outcomes[f"exception:{type(e).__name__}"] += 1
        res.violation("total", case, f"identify_outcomes(conditions=...) raised {type(e).__name__}: {e}")
        return
    try:
        est2 = idc(Identification(query=Query(outcomes=set(ys), treatments=set(xs), conditions=set(zs)), graph=yg))
        out2 = "estimand"
    except Unidentifiable:
        est2, out2 = None, "unidentifiable"
    except Exception as e:  # noqa
        est2, out2 = None, f"exception:{type(e).__name__}"
    if out2 != out or (est is not None and est2 != est):
        res.violation("entry_points", case, f"identify_outcomes -> {out} {est}; idc(Identification) -> {out2} {est2}")
    if snapshot(yg) != before:
        res.violation("side_effect", case, "IDC modified the caller's graph")
    res.outcomes[out] += 1
    if est is None:
        return
    for label, m in models:
        try:
            fn, free = compile_expr(est, m.card)
        except Malformed as e:
            res.violation("malformed", dict(case, profile=label), f"{est} : {e}")
            return
        names = {n for n, _ in free} | set(x) | set(y) | set(z)
        world = World({None: m})
        for env in envs(m.card, {(n, None) for n in names}):
            res.transitions += 1
            do = frozenset((n, env[(n, None)]) for n in x)
            pz = m.prob(do, frozenset((n, env[(n, None)]) for n in z))
            pyz = m.prob(do, frozenset((n, env[(n, None)]) for n in y + z))
            want = pyz / pz
            try:
                got = fn(env, world)
            except (Undefined, MultiWorld, Malformed, KeyError) as e:
                got = f"{type(e).__name__}: {e}"
            if got != want:
                res.violation(
                    "value",
                    dict(case, profile=label, env={n: env[(n, None)] for n in sorted(names)}),
                    f"estimand {est} evaluates to {got}, P(y|do x, z) = {want}",
                )
                res.outcomes["wrong_value"] += 1
                return
    res.outcomes["estimand_correct"] += 1


def explore_graph(res: Res, g: G, tier, seed, only=None):
    yg = to_y0(g)
    models = [(label, SCM(g, card=card, salt=salt)) for label, card, salt in profiles(g, tier, seed)]
    if len(g.nodes) >= 5:
        models = models[:1]  # five-node slice: the all-binary witness only
    for x, y, z in disjoint_triples(g.nodes):
        if only and [list(x), list(y), list(z)] != only:
            continue
        case = {"graph": g.to_json(), "X": list(x), "Y": list(y), "Z": list(z)}
        if len(res.samples) < 3 and len(g.nodes) >= 3 and g.bi and len(g.di) >= 2 and x:
            res.sample(case)
        check_query(res, g, yg, x, y, z, models, case)


def work(shard, tier, seed):
    res = Res()
    if shard[0] == "build":
        res.states += run_sequences(shard[1], 3, _builder_judge(res, seed), names=NAMES3, start_nodes=NAMES3)
        return res
    lo, hi = shard
    for g in _universe(tier)[lo:hi]:
        explore_graph(res, g, tier, seed)
    return res


def replay(case, clause=None):
    import os

    g = G.from_json(case["graph"])
    res = Res()
    if "builder_ops" in case:
        replay_sequence(case["builder_ops"], _builder_judge(res, int(os.environ.get("VERIF_SEED", "0") or 0)))
        return [v for v in res.violations if (clause is None or v["clause"] == clause) and all(v["input"].get(k) == case[k] for k in ("X", "Y", "Z"))][:1]
    explore_graph(
        res, g, "thorough", int(os.environ.get("VERIF_SEED", "0") or 0), only=[case["X"], case["Y"], case["Z"]]
    )
    return [v for v in res.violations if clause is None or v["clause"] == clause]
