"""Witness structural causal models with exact (integer / rational) arithmetic.

``SCM``            Markovian-with-latents model of an ADMG: one binary latent per bidirected edge, one
                   CPT per node.  Every CPT row sums to the same integer ``D`` so every joint table is
                   a table of integers over one common denominator.
``FunctionalSCM``  (see mc/fscm.py) adds explicit exogenous noise for counterfactuals.

All parameters come from SHA-256 of *named* arguments, never from ``hash()``: they do not depend
on PYTHONHASHSEED, on node order, or on the order in which a graph lists parents.  A mechanism is a
function of ``(salt, node, {(parent, value)}, {(latent, value)})`` so two domain models that share
the salt of a node share that mechanism literally.
"""

from __future__ import annotations

import hashlib
import itertools as itt
from fractions import Fraction

from .graphs import G, a_topological_order, parents

D = 60  # every CPT row sums to D


def h(*parts) -> int:
    s = "\x1f".join(str(p) for p in parts).encode()
    return int.from_bytes(hashlib.sha256(s).digest()[:8], "big")


def row_weights(card: int, *key) -> tuple:
    """Positive integer weights for a categorical distribution with ``card`` values summing to D."""
    x = h("row", *key)
    if card == 2:
        w0 = 1 + x % (D - 1)
        return (w0, D - w0)
    hi = (D - 1) // card
    ws = []
    for _ in range(card - 1):
        ws.append(1 + x % hi)
        x //= 97
    ws.append(D - sum(ws))
    return tuple(ws)


def latent_name(a, b) -> str:
    a, b = sorted((a, b))
    return f"U_{a}_{b}"


class SCM:
    """Positive discrete SCM inducing the ADMG ``g``.

    :param card: dict node -> cardinality (default 2)
    :param salt: global salt (VERIF_SEED and profile)
    :param node_salt: dict node -> salt overriding the global one (used for transported mechanisms)
    """

    def __init__(self, g: G, card=None, salt=0, node_salt=None):
        self.g = g
        self.card = {v: 2 for v in g.nodes}
        if card:
            self.card.update(card)
        self.salt = salt
        self.node_salt = dict(node_salt or {})
        self.order = a_topological_order(g)
        self.pa = {v: tuple(sorted(parents(g, v))) for v in g.nodes}
        self.lat = tuple(latent_name(a, b) for a, b in g.bi)
        self.lat_of = {v: tuple(sorted(latent_name(a, b) for a, b in g.bi if v in (a, b))) for v in g.nodes}
        self.lat_w = {u: row_weights(2, "lat", salt, u) for u in self.lat}
        self._rows = {}
        self._tables = {}
        self._marg = {}
        self.index = {v: i for i, v in enumerate(self.order)}

    def domain(self, v):
        return range(self.card[v])

    def row(self, v, pa_vals: tuple, lat_vals: tuple) -> tuple:
        key = (v, pa_vals, lat_vals)
        r = self._rows.get(key)
        if r is None:
            s = self.node_salt.get(v, self.salt)
            r = row_weights(self.card[v], "cpt", s, v, pa_vals, lat_vals)
            self._rows[key] = r
        return r

    def table(self, do: frozenset = frozenset()):
        """Interventional joint over the observed nodes: (dict tuple(values in self.order) -> int, total)."""
        t = self._tables.get(do)
        if t is not None:
            return t
        do_d = dict(do)
        out = {}
        for lat_vals in itt.product((0, 1), repeat=len(self.lat)):
            lw = 1
            lv = dict(zip(self.lat, lat_vals))
            for u, x in lv.items():
                lw *= self.lat_w[u][x]
            free = [v for v in self.order if v not in do_d]
            for vals in itt.product(*[self.domain(v) for v in free]):
                a = dict(do_d)
                a.update(zip(free, vals))
                w = lw
                for v in free:
                    r = self.row(
                        v,
                        tuple((p, a[p]) for p in self.pa[v]),
                        tuple((u, lv[u]) for u in self.lat_of[v]),
                    )
                    w *= r[a[v]]
                key = tuple(a[v] for v in self.order)
                out[key] = out.get(key, 0) + w
        total = sum(out.values())
        t = (out, total)
        self._tables[do] = t
        return t

    def weight(self, do: frozenset, items: frozenset) -> int:
        """Un-normalised weight of the partial assignment ``items`` (frozenset of (name, value)) under do."""
        k = (do, items)
        w = self._marg.get(k)
        if w is None:
            tab, _ = self.table(do)
            want = {}
            ok = True
            for name, val in items:
                if name in want and want[name] != val:
                    ok = False
                want[name] = val
            if not ok:
                w = 0
            else:
                idx = [(self.index[n], v) for n, v in want.items()]
                w = sum(x for key, x in tab.items() if all(key[i] == v for i, v in idx))
            self._marg[k] = w
        return w

    def prob(self, do: frozenset, items: frozenset) -> Fraction:
        return Fraction(self.weight(do, items), self.table(do)[1])

    def assignments(self, names):
        names = list(names)
        for vals in itt.product(*[self.domain(v) for v in names]):
            yield dict(zip(names, vals))


class World:
    """Maps (population, world=frozenset of (name, value) interventions) to an SCM table; the evaluator's 𝔻."""

    def __init__(self, models: dict, default=None):
        # models: population name (str or None) -> SCM
        self.models = models
        self.default = default
        any_model = next(iter(models.values()))
        self.card = any_model.card

    def model(self, pop):
        if pop in self.models:
            return self.models[pop]
        raise KeyError(f"undeclared population {pop!r}")

    def joint(self, pop, items):
        """items: iterable of (name, world frozenset[(iname, ival)], value).  Single-world only here."""
        worlds = {w for _, w, _ in items}
        if len(worlds) != 1:
            from .semantics import MultiWorld

            raise MultiWorld(f"term mixes worlds {sorted(map(sorted, worlds))}")
        (w,) = worlds
        m = self.model(pop)
        # contradictory intervention sets (same name two values) cannot be built: treat as error
        if len(dict(w)) != len(w):
            from .semantics import Malformed

            raise Malformed(f"intervention set assigns two values to one variable: {sorted(w)}")
        return m.prob(w, frozenset((n, v) for n, _, v in items))
